#!/bin/sh
# tools/pinned.sh <Cxx> [tier]: run a check against the PINNED (pre-fix) tree, extracted to a scratch dir that is removed afterwards.
set -e
here="$(cd "$(dirname "$0")/.." && pwd)"
base=$(cat /root/.vp/repo_root_sha 2>/dev/null || git -C /repo rev-list --max-parents=0 HEAD | tail -1)
base=15a555e
tmp=$(mktemp -d /tmp/kneemon-pinned-XXXXXX)
git -C /repo archive "$base" src | tar -x -C "$tmp"
KNEEMON_SRC="$tmp/src" "$here/check" "$1" "${2:-quick}" > "$here/findings/pinned/$1.txt" 2>&1 || true
rm -rf "$tmp"
find "$here/replays" -name "$1-*.json" -newer "$here/findings/pinned/$1.txt" -delete 2>/dev/null || true
git -C "$here" checkout -- "evidence/$1.json" 2>/dev/null || true
grep -v "replay:" "$here/findings/pinned/$1.txt" | tail -12
