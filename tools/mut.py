#!/venv/bin/python
"""Self-validation helper: run checks against a mutated scratch copy of /repo/src.

    tools/mut.py <props comma list> <file under src/kneeliverse> <old> <new> [--count N] [--tier quick]
The scratch copy lives under /tmp and is removed afterwards.  Never touches /repo.
"""
import argparse
import os
import shutil
import subprocess
import sys
import tempfile

HERE = os.path.dirname(os.path.dirname(os.path.abspath(__file__)))


def main():
    ap = argparse.ArgumentParser()
    ap.add_argument('props')
    ap.add_argument('file')
    ap.add_argument('old')
    ap.add_argument('new')
    ap.add_argument('--count', type=int, default=1)
    ap.add_argument('--tier', default='quick')
    ap.add_argument('--patch', help='apply a unified diff (relative to repo root) instead of old/new')
    a = ap.parse_args()
    tmp = tempfile.mkdtemp(prefix='kneemon-mut-')
    try:
        shutil.copytree('/repo/src', os.path.join(tmp, 'src'))
        if a.patch:
            subprocess.run(['patch', '-p1', '-d', tmp, '-i', os.path.abspath(a.patch)], check=True)
        else:
            p = os.path.join(tmp, 'src', 'kneeliverse', a.file)
            s = open(p).read()
            old = a.old.encode().decode('unicode_escape')
            new = a.new.encode().decode('unicode_escape')
            if s.count(old) != a.count:
                print(f'MUTANT NOT APPLIED: {s.count(old)} occurrences of {old!r}')
                return 3
            open(p, 'w').write(s.replace(old, new))
        env = dict(os.environ, KNEEMON_SRC=os.path.join(tmp, 'src'), KNEEMON_NO_EVIDENCE='1')
        rc_all = 0
        for prop in a.props.split(','):
            r = subprocess.run([os.path.join(HERE, 'check'), prop, a.tier], env=env, capture_output=True, text=True)
            tail = [l for l in r.stdout.splitlines() if l.startswith(('VIOLATION', 'INCONCLUSIVE', '  violation', prop))]
            print(f'--- {prop} rc={r.returncode}')
            print('\n'.join(tail[:8]))
            rc_all = max(rc_all, r.returncode)
        return rc_all
    finally:
        shutil.rmtree(tmp, ignore_errors=True)


if __name__ == '__main__':
    sys.exit(main())
