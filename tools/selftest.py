#!/venv/bin/python
"""Regression test of the verification machinery itself: re-run every stored seeded change
(/verif/seeded/<Cxx>-<id>/patch.diff) against its property's check on a scratch copy of /repo and
print the catch table.  Exit 0 iff every change is caught (exit 1 + VIOLATION line from the check).

    tools/selftest.py [--tier quick] [--jobs 4] [--only C05]
"""
import argparse
import concurrent.futures as cf
import glob
import json
import os
import shutil
import subprocess
import sys
import tempfile

HERE = os.path.dirname(os.path.dirname(os.path.abspath(__file__)))


def one(path, tier):
    name = os.path.basename(path)
    prop = name.split('-')[0]
    tmp = tempfile.mkdtemp(prefix='kneemon-self-')
    try:
        shutil.copytree('/repo/src', os.path.join(tmp, 'src'))
        os.symlink('/repo/traces', os.path.join(tmp, 'traces'))
        r = subprocess.run(['patch', '-p1', '-s', '-d', tmp, '-i', os.path.join(path, 'patch.diff')], capture_output=True, text=True)
        if r.returncode != 0:
            return name, 'patch-failed', []
        env = dict(os.environ, KNEEMON_SRC=os.path.join(tmp, 'src'), KNEEMON_NO_EVIDENCE='1')
        c = subprocess.run([os.path.join(HERE, 'check'), prop, tier], env=env, capture_output=True, text=True)
        keys = [l.strip().split(' monitor=')[0].replace('violation key=', '') for l in c.stdout.splitlines()
                if l.startswith('  violation key=')]
        return name, c.returncode, keys[:4]
    finally:
        shutil.rmtree(tmp, ignore_errors=True)


def main():
    ap = argparse.ArgumentParser()
    ap.add_argument('--tier', default='quick')
    ap.add_argument('--jobs', type=int, default=3)
    ap.add_argument('--only')
    a = ap.parse_args()
    paths = sorted(p for p in glob.glob(os.path.join(HERE, 'seeded', 'C*-*')) if os.path.exists(os.path.join(p, 'patch.diff')))
    if a.only:
        paths = [p for p in paths if os.path.basename(p).startswith(a.only)]
    missed = []
    with cf.ThreadPoolExecutor(a.jobs) as ex:
        for name, rc, keys in ex.map(lambda p: one(p, a.tier), paths):
            meta = {}
            try:
                meta = json.load(open(os.path.join(HERE, 'seeded', name, 'meta.json')))
            except Exception:
                pass
            note = ''
            if rc != 1 and meta.get('neutralised'):
                note = '  (neutralised by a later fix: in /repo: no longer breaks the property, see meta.json)'
            elif rc != 1 and meta.get('disposition'):
                note = '  (documented: ' + str(meta['disposition'])[:90] + ')'
            print(f'{name:8s} rc={rc}  {"; ".join(keys)}{note}', flush=True)
            if rc != 1 and not meta.get('neutralised'):
                missed.append(name)
    print(f'{len(paths) - len(missed)}/{len(paths)} seeded changes caught by the {a.tier} tier; missed: {missed}')
    return 1 if missed else 0


if __name__ == '__main__':
    sys.exit(main())
