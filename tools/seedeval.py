#!/venv/bin/python
"""Confirm a seeded property-breaking change and run the checks against it.

    tools/seedeval.py <Cxx> <a|b> [--props C01,C04] [--tier quick] [--keep]

Reads /tmp/seed-out/<Cxx>/{<id>.diff, demo_<id>.py, meta.json} (written by an independent sub-agent that saw
only the property text), confirms on a scratch copy of /repo that (1) the unedited test-suite passes with the
change, (2) the demonstration fails with it and passes without it, then (3) runs ./check for the property
against the changed copy.  With --keep the confirmed change is stored as /verif/seeded/<Cxx>-<id>/.
The scratch copy lives under /tmp and is removed; /repo is never touched.
"""
import argparse
import json
import os
import shutil
import subprocess
import sys
import tempfile

HERE = os.path.dirname(os.path.dirname(os.path.abspath(__file__)))
PY = '/venv/bin/python'


def sh(cmd, **kw):
    return subprocess.run(cmd, capture_output=True, text=True, **kw)


def main():
    ap = argparse.ArgumentParser()
    ap.add_argument('prop')
    ap.add_argument('cid')
    ap.add_argument('--props')
    ap.add_argument('--tier', default='quick')
    ap.add_argument('--keep', action='store_true')
    ap.add_argument('--src', default='/tmp/seed-out')
    ap.add_argument('--as', dest='store_as', help='store under /verif/seeded/<Cxx>-<name> instead of <Cxx>-<id>')
    a = ap.parse_args()
    sdir = os.path.join(a.src, a.prop)
    stored = os.path.join(HERE, 'seeded', f'{a.prop}-{a.store_as or a.cid}')
    if os.path.exists(os.path.join(stored, 'patch.diff')) and not os.path.exists(os.path.join(sdir, f'{a.cid}.diff')):
        diff, demo = os.path.join(stored, 'patch.diff'), os.path.join(stored, 'demo.py')
        meta_in = json.load(open(os.path.join(stored, 'meta.json')))
    else:
        diff, demo = os.path.join(sdir, f'{a.cid}.diff'), os.path.join(sdir, f'demo_{a.cid}.py')
        allmeta = json.load(open(os.path.join(sdir, 'meta.json')))
        meta_in = next((c for c in allmeta.get('changes', []) if c.get('id') == a.cid), {})
    tmp = tempfile.mkdtemp(prefix='kneemon-seed-')
    out = {'property': a.prop, 'change': a.cid}
    try:
        shutil.copytree('/repo/src', os.path.join(tmp, 'src'))
        shutil.copytree('/repo/test', os.path.join(tmp, 'test'))
        os.symlink('/repo/traces', os.path.join(tmp, 'traces'))
        r = sh(['patch', '-p1', '-d', tmp, '-i', os.path.abspath(diff)])
        if r.returncode != 0:
            print('PATCH FAILED', r.stdout, r.stderr)
            return 3
        env = dict(os.environ, PYTHONPATH=os.path.join(tmp, 'src'), PYTHONDONTWRITEBYTECODE='1')
        t = sh([PY, '-m', 'pytest', '-q', '-p', 'no:cacheprovider', 'test'], cwd=tmp, env=env)
        out['suite_with_change'] = t.stdout.strip().splitlines()[-1] if t.stdout.strip() else t.stderr[-200:]
        d1 = sh([PY, os.path.abspath(demo)], cwd=tmp, env=env)
        env0 = dict(os.environ, PYTHONPATH='/repo/src', PYTHONDONTWRITEBYTECODE='1')
        d0 = sh([PY, os.path.abspath(demo)], cwd=tmp, env=env0)
        out['demo_with_change_rc'] = d1.returncode
        out['demo_without_change_rc'] = d0.returncode
        out['demo_message'] = (d1.stdout + d1.stderr).strip().splitlines()[-1][:300] if (d1.stdout + d1.stderr).strip() else ''
        confirmed = ('passed' in out['suite_with_change'] and 'failed' not in out['suite_with_change']
                     and d1.returncode != 0 and d0.returncode == 0)
        out['confirmed'] = confirmed
        out['checks'] = {}
        envk = dict(os.environ, KNEEMON_SRC=os.path.join(tmp, 'src'), KNEEMON_NO_EVIDENCE='1')
        for prop in (a.props.split(',') if a.props else [a.prop]):
            c = sh([os.path.join(HERE, 'check'), prop, a.tier], env=envk)
            keys = [l.strip() for l in c.stdout.splitlines() if l.startswith('  violation key=')]
            out['checks'][prop] = {'tier': a.tier, 'rc': c.returncode,
                                   'keys': [k.split(' monitor=')[0].replace('violation key=', '') for k in keys][:8],
                                   'first': keys[0][:400] if keys else ''}
        print(json.dumps(out, indent=1))
        if a.keep and confirmed:
            os.makedirs(stored, exist_ok=True)
            if os.path.abspath(diff) != os.path.join(stored, 'patch.diff'):
                shutil.copy(diff, os.path.join(stored, 'patch.diff'))
                shutil.copy(demo, os.path.join(stored, 'demo.py'))
            meta = {'property': a.prop, 'change': a.store_as or a.cid, 'summary': meta_in.get('summary'),
                    'clause_broken': meta_in.get('clause_broken'), 'needs_to_manifest': meta_in.get('needs_to_manifest'),
                    'files': meta_in.get('files'), 'origin': 'independent sub-agent given only the property text and a scratch worktree',
                    'confirmed_by': {'suite_with_change': out['suite_with_change'], 'demo_with_change_rc': d1.returncode,
                                     'demo_without_change_rc': d0.returncode, 'demo_message': out['demo_message'],
                                     'how': 'tools/seedeval.py: scratch copy of /repo (src+test), patch -p1, pytest, demo with and without the change'},
                    'checks': out['checks']}
            if os.path.exists(os.path.join(stored, 'meta.json')):
                old = json.load(open(os.path.join(stored, 'meta.json')))
                for k in ('summary', 'clause_broken', 'needs_to_manifest', 'files'):
                    meta[k] = meta[k] or old.get(k)
            json.dump(meta, open(os.path.join(stored, 'meta.json'), 'w'), indent=1)
        return 0
    finally:
        shutil.rmtree(tmp, ignore_errors=True)


if __name__ == '__main__':
    sys.exit(main())
