#!/venv/bin/python
"""Regenerates /verif/MANIFEST.json from the table below (keeps it schema-valid)."""
import json
import os
import subprocess

HERE = os.path.dirname(os.path.dirname(os.path.abspath(__file__)))

# id -> (technique, level text, level note, design ref)
CHECKS = {
    'C01': ('runtime postcondition monitor on the five simplifiers + sys.monitoring loop-bound/variant monitor',
            'Well-formedness postconditions on every call of rdp/grdp/rdp_fixed/mp_grdp/min_point_rdp (also the internal '
            'ones), a step bound linear in n on every while loop and a strictly decreasing variant on the RDP work stack, '
            'observed on thousands of hostile curves x the whole configuration space. Exploration: held on the executions '
            'produced, nothing is proved.',
            'CPython 3.12 sys.monitoring semantics; generators reach the hostile classes listed in the evidence histograms',
            'DESIGN.md section 4 C01'),
    'C02': ('runtime postcondition monitor on multi_knee.multi_knee (executable recursion with the live detector callable) + loop-bound monitor',
            'Every multi_knee call (all five detectors) is compared for exact equality with the documented recursion recomputed '
            'from the same detector callable and the library\'s own SMAPE primitive, plus range/ordering clauses and step bounds '
            'on the multi_knee, DFDT and L-method loops; exact-tie thresholds t1 == realised SMAPE are generated on purpose.',
            'detectors are deterministic (C20); only the default straightness metric is exercised',
            'DESIGN.md section 4 C02'),
    'C04': ('runtime postcondition monitor on rdp.rdp: recursive-partition explainer using the library\'s own cost/distance primitives',
            'For every rdp.rdp call the monitor re-derives a recursive split tree that explains every retained index and checks every '
            'accepted segment against the threshold with bit-identical cost values (metric dispatched by the monitor, not by rdp.py); '
            'equally-far split points within the distance noise floor are interchangeable (back-tracking).',
            'same-primitive rule: linear_fit.*_points and the distance primitives themselves are decided by C16/C17',
            'DESIGN.md section 4 C04'),
    'C05': ('history monitor over the chain rdp_fixed(k), k=0..n+1, plus online frame-local monitor of the _rdp_fixed work stack',
            'Exact size, nesting, farthest-point and maximal-priority clauses are checked on every consecutive pair of the chain for '
            'every curve x distance x ordering; the online monitor reads the real stack at each loop iteration and asserts the popped '
            'entry has the maximal stored priority.',
            'priorities recomputed with the saved primitives on equal-valued slices (bit-identical) AND cross-checked against long-double definitions of the three ordering scores; first split exempt',
            'DESIGN.md section 4 C05'),
    'C06': ('runtime postcondition monitors on grdp / mp_grdp / min_point_rdp against the recomputed fixed-size chain and fresh-cache global cost',
            'Each result is compared for exact equality with S_k* (least k whose fresh-cache global cost is on the accepting side), '
            'S_max(k*,min(m,n)) and the documented multi-threshold selection; thresholds are placed on and around the realised cost '
            'ladder so that k* spreads over 2..n and exact ties occur.',
            'rdp_fixed (C05) and compute_global_cost with a fresh cache (C15) are taken as the reference',
            'DESIGN.md section 4 C06'),
    'C09': ('runtime reference-model monitors per detector (independent long-double criteria) + loop-bound monitor on the refinement loops',
            'Every detector answer is checked for interiority and for attaining the optimum of its criterion recomputed independently '
            '(curvature from uts.gradient, executable DFDT cutoff loop, long-double Menger circumradius, long-double two-line L-method '
            'error for both fits and costs with a data-derived error floor); the L-method refinement loop is bounded by n+2 steps for '
            'every Fit x Refinement x limit >= 4.',
            'uts.gradient / uts.thresholding taken as given; ties in an argmin/argmax accept any optimiser',
            'DESIGN.md section 4 C09'),
    'C15': ('runtime reference-model monitor (long double) on compute_global_cost / compute_global_rmse / mip + online cache-transparency and cache-audit monitor',
            'Every call (also the ones made inside global RDP) is compared with an independent model of the definition, re-evaluated '
            'with a fresh cache and compared bit for bit, and the shared cache is audited entry by entry across the whole query history.',
            'relative metrics compared numerically only away from y = 0; structural clauses everywhere',
            'DESIGN.md section 4 C15'),
    'C12': ('runtime postcondition monitors on filter_clusters / filter_clusters_corners (recomputed clusters, saved-primitive scores, independent long-double fit x weight model)',
            'For every call: subset/ordering, exactly one member per recomputed cluster, the survivor attains the maximal ranking score '
            '(NaN scores are violations), smooth_ranking agrees with an independent model on well-conditioned windows; hull mode: at most '
            'one member per cluster and none from clusters without a lower-hull point; corner variant: survivor maximises the triangle score.',
            'clusters and hull are recomputed with the saved linkage / graham_scan_lower, whose results are themselves run through the decision monitor of C11 and the chain monitor of C18',
            'DESIGN.md section 4 C12'),
    'C03': ('runtime postcondition monitor result == corner on generated exact two-slope elbows, all detector configurations + loop monitor',
            'Every generated elbow (exactly representable coordinates, every orientation class) is run through curvature, DFDT, Menger, '
            'L-method get_knee (2 fits x 2 costs) and knee (2 fits x 3 refinements x 2 limits) and Kneedle(t=0) on monotone elbows; the '
            'thorough tier visits every ordered slope pair once and arms of up to 2000 segments.',
            'the elbow family is the one stated in the property (arms >= 3 segments, gaps 1..4, slopes j/8, dyadic offsets)',
            'DESIGN.md section 4 C03'),
    'C18': ('runtime postcondition monitors on the three hull routines against exact rational/integer brute-force hulls + loop monitor',
            'Chains: shape, on-or-above/below and strict-turn clauses with exact rational orientation tests, equality with the brute-force '
            'chain on integer/dyadic curves; graham_scan on distinct integer point sets (general position and degenerate): completes, no '
            'repeats, all extreme vertices, only boundary points, exact clockwise cycle in general position.',
            'float curves accept either decision within the orientation noise floor; graham_scan exercised on integer points only; one open known finding: int64 curves whose orientation products exceed 2^63 (classified apart: the float64 copy of the same values gets a correct chain)',
            'DESIGN.md section 4 C18'),
    'C07': ('runtime postcondition monitors on rdp.mapping / compute_removed_points; exhaustive small-scope enumeration of index structures + random large structures + every simplifier\'s own (reduced, removed) pair',
            'mapping(I, reduced, removed) == reduced[I] is checked on EVERY index structure with n <= 8 (quick) / n <= 9 (thorough) - every '
            'subset with both ends, every ascending position list, sorted and unsorted row orders - and on random structures up to n = 2000 '
            'and on the pairs returned by all five simplifiers; compute_removed_points must reproduce each simplifier\'s table.',
            'exhaustive only for the stated finite scope (row permutations are complete for <= 4 rows, sampled beyond)',
            'DESIGN.md section 4 C07'),
    'C14': ('runtime postcondition monitors on add_points_even / add_points_even_knees against the executable documented set (same float expressions, exact comparison)',
            'Every call is compared exactly with the running-minimum-filtered union of mapped knees, evenly index-spaced insertions and '
            'optional extremes, recomputed with the identical float expressions; power-of-two grids with dyadic thresholds make the '
            'w == 2*tx and height == ty ties occur exactly; a separate range monitor checks every index is inside the curve.',
            'rdp.mapping (C07) and the reduction handed in are taken as given',
            'DESIGN.md section 4 C14'),
    'C10': ('runtime postcondition monitors on zmethod.knees / getPoints (exact pairwise separation with the code\'s own threshold expressions) + loop-bound and progress-variant monitor on the selection loop',
            'Every result is checked for valid strictly increasing indices, non-increasing heights and pairwise x/y separation of ALL knee '
            'pairs; the selection loop is bounded by the documented ceil((3-min z)/dz)+n rounds (x2 slack) and a progress hook asserts a '
            'round that selects an outlier shrinks the candidate table.',
            'miss-ratio-like domain (integer x, y in [0,1], dx/dy/dz in (0,1]); uts.gradient/uts.zscore taken as given',
            'DESIGN.md section 4 C10'),
    'C11': ('runtime per-decision monitors on the four linkages against the implementation\'s own run boundaries (IEEE replay for single/complete, exact rationals for centroid/average) + monotonicity ladder',
            'Label well-formedness, every split/merge decision (exact at generated ties where floating point is exact, banded elsewhere) and '
            'monotonicity of single/complete cluster counts over a 12-step threshold ladder per layout; exact-tie cases are counted and '
            'required per linkage.',
            'in-band centroid/average decisions are asserted only where the implementation\'s arithmetic is provably exact',
            'DESIGN.md section 4 C11'),
    'C13': ('runtime postcondition monitors on filter_worst_knees / filter_corner_knees / select_corner_knees (also on internal calls) with an independent rational IoU',
            'Greedy running-minimum rule and idempotence; corner filter/selector against an IoU recomputed in exact rationals from the three '
            'points, exact tie decisions on dyadic curves, partition law, order preservation, idempotence.',
            'outside the dyadic class a decision within 1e-12 relative of t is accepted either way',
            'DESIGN.md section 4 C13'),
    'C19': ('runtime postcondition monitors on cm / mae / mse / rmse / rmspe / accuracy / f1score / mcc against executable greedy-matching and nearest-neighbour models, incl. a large-count class',
            'Confusion-matrix identities and greedy TP, error metrics against the nearest-neighbour model for the four strategies, sqrt/zero/'
            'non-negativity laws, score ranges and perfect-detection laws on small curves AND on confusion matrices of 1.4e5..1e6 points '
            '(where int64 products overflow) and on int64 curves of magnitude 1e10 with int64 expected points; thorough also runs cm on the bundled web2 trace.',
            'near-tie nearest-neighbour and threshold decisions (IEEE vs rational disagreement) get no numeric verdict',
            'DESIGN.md section 4 C19'),
    'C20': ('cross-cutting purity / determinism (immediate and after a call history) / representation monitors over ~200 entry-point configurations + load-time link monitor on live function objects + sys.monitoring RAISE monitor + reach coverage',
            'Argument digests before/after every call (mutable defaults included), repeated-call bitwise equality, C vs Fortran vs strided-view '
            'vs int64 representations (index outputs identical, floats within 8 ulp + cancellation floor), and resolution of every global name, '
            'module/class attribute chain, intra-package and uts call signature, tuple-unpacking arity and local import against the live '
            'objects; link-type exceptions raised in package frames are recorded by a RAISE monitor; line coverage of the call-everything '
            'workload is reported. A history pass per scenario (every entry point on degenerate inputs, then every first call repeated) checks '
            'that no call leaves process-wide or module-level state behind that changes a later identical call.',
            'open known findings: evaluation.compute_global_segment_cost (link) and the int64 wrap-around of convex_hull._ccw at magnitude ~1e10 (representation); attribute access on values and calls through local aliases only on reached paths',
            'DESIGN.md section 4 C20'),
    'C08': ('stage-by-stage runtime monitor of the demo pipeline (values flowing between the public calls) + loop-bound monitor, on synthetic families and the bundled traces',
            'simplify -> multi_knee(reduced curve) -> filter_worst_knees -> filter_corner_knees -> filter_clusters -> mapping is re-created for '
            'every simplifier x detector x linkage x ranking mode (incl. the demos\' default hull) and checked for completion, loop bounds, '
            'the subsequence law per filter stage, non-increasing heights and exact coordinate equality of the final indices.',
            'stage parameters are generated inside each stage\'s documented domain; the add_points_even tail only for completion/index validity',
            'DESIGN.md section 4 C08'),
    'C16': ('runtime reference-model monitors (long double textbook formulas) on the numba metrics and every linear_fit wrapper, across dtype/layout specialisations',
            'metrics.* against long-double formulas incl. eps guards, symmetry / sign / zero / range laws, every linear_fit *_points and (x,y,coef) '
            'wrapper bit-identical to the metric applied to m*x+b, end-point fit through both end points, best-fit R2 vs a two-pass Pearson '
            'formula and the adjusted correction; float64/int64 x contiguous/strided specialisations of the jitted code are each exercised.',
            'R2 comparisons skip TSS below the cancellation floor; rmsle/rmspe/rpd asserted for y, y_hat >= 0',
            'DESIGN.md section 4 C16'),
    'C17': ('runtime reference-model monitors on the geometric and ranking primitives (long-double closed-segment / line distance, IoU, circumradius, rank laws), also on the calls made inside the simplifiers',
            'shortest and perpendicular distances vs projection-clamp / cross-product models (clamp branches, a == b, sub-ranges), IoU laws, '
            'Menger curvature vs the independent circumradius formula incl. symmetry and collinear triples, rank as an ordering permutation, '
            'distances / similarity / triangle area; the monitors also observe every chord distance evaluated by rdp.rdp / rdp_fixed.',
            'distance tolerance 64*eps*(|coords|max + chord) + rtol 1e-9; exact on integer grids where stated',
            'DESIGN.md section 4 C17'),
}

BUILDING = {}   # id -> reason (properties not claimed yet)


def main():
    props = [json.loads(l) for l in open(os.path.join(HERE, 'properties.jsonl'))]
    ids = [p['id'] for p in props]
    checks = []
    for pid in ids:
        if pid not in CHECKS:
            continue
        tech, text, note, ref = CHECKS[pid]
        checks.append({
            'property_id': pid,
            'quick_cmd': f'./check {pid} quick',
            'thorough_cmd': f'./check {pid} thorough',
            'evidence_file': f'evidence/{pid}.json',
            'replay_cmd_template': f'./check {pid} --replay {{path}}',
            'engine': 'kneemon',
            'level_claimed': {'category': 'exploration', 'text': text, 'design_ref': ref},
            'level_note': note,
            'technique': tech,
        })
    na = [{'property_id': pid, 'reason': BUILDING.get(pid, 'monitor not built yet (work in progress; will be claimed once its check exists)')}
          for pid in ids if pid not in CHECKS]
    try:
        fixes = subprocess.run(['git', '-C', '/repo', 'log', '--format=%h %s', '--grep=^fix:'],
                               capture_output=True, text=True).stdout.strip().splitlines()
    except Exception:
        fixes = []
    m = {
        'version': 1,
        'setup_cmd': 'sh ./setup.sh',
        'hooks': {
            'guard': 'KNEEMON',
            'enable': 'KNEEMON=1 is exported by ./check; it only switches the harness monitors on (module-attribute wrappers, '
                      'sys.monitoring loop monitors). No source hook exists in /repo: the package is imported from /repo/src as it is.',
            'baseline_off_cmd': 'cd /repo && env -u KNEEMON /venv/bin/python -m pytest -ra -q -p no:cacheprovider --timeout=900 '
                                '--continue-on-collection-errors',
            'source_commits': [],
            'add_only': True,
        },
        'engines': [{'name': 'kneemon', 'path': 'kneemon/', 'serves_properties': [c['property_id'] for c in checks],
                     'kind_free_text': 'runtime monitors (postcondition / reference-model wrappers on the live module attributes, '
                                       'sys.monitoring loop-bound monitors, load-time link monitor) driven by seeded hostile workloads'}],
        'checks': checks,
        'not_applicable': na,
        'notes': 'Fix commits in /repo (unguarded, see known_findings.json): ' + '; '.join(fixes),
    }
    with open(os.path.join(HERE, 'MANIFEST.json'), 'w') as f:
        json.dump(m, f, indent=1)
    print(f'{len(checks)} checks, {len(na)} not_applicable')


if __name__ == '__main__':
    main()
