#!/venv/bin/python
"""Regenerates /verif/MANIFEST.json from the table below (keeps it schema-valid)."""
import json
import os
import subprocess

HERE = os.path.dirname(os.path.dirname(os.path.abspath(__file__)))

# id -> (technique, level text, level note, design ref)
CHECKS = {
    'C01': ('runtime postcondition monitor on the five simplifiers + sys.monitoring loop-bound/variant monitor',
            'Well-formedness postconditions on every call of rdp/grdp/rdp_fixed/mp_grdp/min_point_rdp (also the internal '
            'ones), a step bound linear in n on every while loop and a strictly decreasing variant on the RDP work stack, '
            'observed on thousands of hostile curves x the whole configuration space. Exploration: held on the executions '
            'produced, nothing is proved.',
            'CPython 3.12 sys.monitoring semantics; generators reach the hostile classes listed in the evidence histograms',
            'DESIGN.md section 4 C01'),
}

BUILDING = {}   # id -> reason (properties not claimed yet)


def main():
    props = [json.loads(l) for l in open(os.path.join(HERE, 'properties.jsonl'))]
    ids = [p['id'] for p in props]
    checks = []
    for pid in ids:
        if pid not in CHECKS:
            continue
        tech, text, note, ref = CHECKS[pid]
        checks.append({
            'property_id': pid,
            'quick_cmd': f'./check {pid} quick',
            'thorough_cmd': f'./check {pid} thorough',
            'evidence_file': f'evidence/{pid}.json',
            'replay_cmd_template': f'./check {pid} --replay {{path}}',
            'engine': 'kneemon',
            'level_claimed': {'category': 'exploration', 'text': text, 'design_ref': ref},
            'level_note': note,
            'technique': tech,
        })
    na = [{'property_id': pid, 'reason': BUILDING.get(pid, 'monitor not built yet (work in progress; will be claimed once its check exists)')}
          for pid in ids if pid not in CHECKS]
    try:
        fixes = subprocess.run(['git', '-C', '/repo', 'log', '--format=%h %s', '--grep=^fix:'],
                               capture_output=True, text=True).stdout.strip().splitlines()
    except Exception:
        fixes = []
    m = {
        'version': 1,
        'setup_cmd': 'sh ./setup.sh',
        'hooks': {
            'guard': 'KNEEMON',
            'enable': 'KNEEMON=1 is exported by ./check; it only switches the harness monitors on (module-attribute wrappers, '
                      'sys.monitoring loop monitors). No source hook exists in /repo: the package is imported from /repo/src as it is.',
            'baseline_off_cmd': 'cd /repo && env -u KNEEMON /venv/bin/python -m pytest -ra -q -p no:cacheprovider --timeout=900 '
                                '--continue-on-collection-errors',
            'source_commits': [],
            'add_only': True,
        },
        'engines': [{'name': 'kneemon', 'path': 'kneemon/', 'serves_properties': [c['property_id'] for c in checks],
                     'kind_free_text': 'runtime monitors (postcondition / reference-model wrappers on the live module attributes, '
                                       'sys.monitoring loop-bound monitors, load-time link monitor) driven by seeded hostile workloads'}],
        'checks': checks,
        'not_applicable': na,
        'notes': 'Fix commits in /repo (unguarded, see known_findings.json): ' + '; '.join(fixes),
    }
    with open(os.path.join(HERE, 'MANIFEST.json'), 'w') as f:
        json.dump(m, f, indent=1)
    print(f'{len(checks)} checks, {len(na)} not_applicable')


if __name__ == '__main__':
    main()
