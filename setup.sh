#!/bin/sh
# Offline set-up: nothing to build or fetch. The framework is pure Python run by /venv/bin/python
# (numpy, numba, pyUTSAlgorithms are the repository's own dependencies and are already installed).
set -e
cd "$(dirname "$0")"
mkdir -p evidence replays
/venv/bin/python -c "import numpy, numba, uts, sys; sys.path.insert(0, '/repo/src'); import kneeliverse; print('kneemon setup ok', numpy.__version__)"
