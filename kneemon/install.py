"""Wrapper registry: postcondition monitors on the real module attributes.

The package calls across modules through module aliases and inside a module
through module globals, both resolved at call time, so replacing the module
attribute intercepts internal calls too.  Oracles must call ``orig(...)``
(saved originals); while an oracle runs, wrapped functions pass straight
through (re-entrancy guard).  Wrappers never touch arguments or results.
"""
import functools
import sys

from .ctx import HarnessError, LoopBoundExceeded

_originals = {}
_active = [False]


def orig(modname, name):
    """The unwrapped function (whether or not a monitor is installed)."""
    key = (modname, name)
    if key in _originals:
        return _originals[key]
    mod = sys.modules['kneeliverse.' + modname]
    return getattr(mod, name)


def monitor(ctx, modname, name, post, label=None):
    """Install post(ctx, original, args, kwargs, result) on kneeliverse.<modname>.<name>.

    Several monitors may be stacked on one function (the repository-test workload installs the
    monitors of one property on top of each other where they share an entry point)."""
    mod = sys.modules['kneeliverse.' + modname]
    current = getattr(mod, name)
    if getattr(current, '_kneemon', False):
        current._posts.append(post)
        return current._original
    original = current
    _originals[(modname, name)] = original
    label = label or f'{modname}.{name}'
    posts = [post]
    memo = {}

    def wrapper(*args, **kwargs):
        if _active[0]:
            return original(*args, **kwargs)
        # optional pre-hooks (post.pre(args, kwargs) -> token) observe the arguments BEFORE the call, e.g. to copy a
        # table the callee might modify; the token is handed to the post-hook as a sixth argument
        tokens = [p.pre(args, kwargs) if hasattr(p, 'pre') else None for p in posts]
        before = _arg_digests(args, kwargs)
        result = original(*args, **kwargs)
        _purity(ctx, label, args, kwargs, before)
        _stability(ctx, label, args, kwargs, result, memo)
        _active[0] = True
        try:
            for p, tok in zip(posts, tokens):
                if hasattr(p, 'pre'):
                    p(ctx, original, args, kwargs, result, tok)
                else:
                    p(ctx, original, args, kwargs, result)
        except (LoopBoundExceeded, HarnessError):
            raise
        except Exception as e:   # an oracle bug is never a verdict
            raise HarnessError(f'oracle of {label} failed: {e!r}') from e
        finally:
            _active[0] = False
        return result

    try:
        functools.update_wrapper(wrapper, original)
    except Exception:
        pass
    wrapper._kneemon = True
    wrapper._original = original
    wrapper._posts = posts
    setattr(mod, name, wrapper)
    return original


def _arrays(o, out):
    import numpy as np
    if isinstance(o, np.ndarray):
        out.append(o)
    elif isinstance(o, (tuple, list)) and len(o) <= 8:
        for e in o:
            _arrays(e, out)
    return out


def _digest(v):
    import hashlib
    import numpy as np
    h = hashlib.blake2b(digest_size=8)
    if isinstance(v, np.ndarray):
        h.update(str(v.dtype).encode() + str(v.shape).encode() + np.ascontiguousarray(v).tobytes())
    else:
        h.update(repr(v).encode())
    return h.digest()


def _arg_digests(args, kwargs):
    import numpy as np
    out = []
    for key, v in list(enumerate(args)) + list(kwargs.items()):
        if (isinstance(v, np.ndarray) and v.size <= 300000) or (isinstance(v, list) and len(v) <= 10000):
            out.append((key, _digest(v)))
    return out


def _purity(ctx, label, args, kwargs, before):
    """The monitored public function must leave its array / list arguments as they were (dict arguments such as the
    cost cache are written by contract and are not checked): a caller that re-uses its own array for the next call
    would otherwise be handed results for data it never passed."""
    changed = []
    for key, dg in before:
        v = args[key] if isinstance(key, int) else kwargs[key]
        if _digest(v) != dg:
            changed.append(key)
    if changed:
        ctx.violation('argument-purity', f'purity:{label}',
                      f'{label} modified its argument(s) {changed} in place')
    elif before:
        ctx.ok('argument-purity')


def _stability(ctx, label, args, kwargs, result, memo):
    """A value the function returned earlier must not change when the function is called again (a result that is a
    view of internal scratch storage is silently overwritten by the next call).  Results that share memory with an
    argument are exempt: the caller owns that storage."""
    import numpy as np
    if _PROBING[0]:
        return          # the harness itself is writing into returned arrays (ownership probe): not the library's doing
    prev = memo.get('last')
    if prev is not None:
        arrs, copies = prev
        for a, c in zip(arrs, copies):
            if a.shape != c.shape or not np.array_equal(a, c, equal_nan=a.dtype.kind == 'f'):
                ctx.violation('result-stability', f'aliasing:{label}',
                              f'an array returned by an earlier call of {label} changed after a later call '
                              f'(it aliases storage the function reuses)', before=c[:20], after=a[:20])
                break
        else:
            ctx.ok('result-stability')
    memo['last'] = None
    res = [a for a in _arrays(result, []) if 0 < a.size <= 4096]
    if res:
        ins = _arrays(list(args) + list(kwargs.values()), [])
        if not any(np.may_share_memory(a, b) for a in res for b in ins):
            memo['last'] = (res, [a.copy() for a in res])


class quiet:
    """Context manager: run library code from an oracle without firing monitors."""

    def __enter__(self):
        self.prev = _active[0]
        _active[0] = True

    def __exit__(self, *a):
        _active[0] = self.prev
        return False


def package_frame_of(tb):
    """Innermost traceback frame that lies in the package: (module, function, line)."""
    hit = None
    while tb is not None:
        fn = tb.tb_frame.f_code.co_filename
        if '/kneeliverse/' in fn:
            hit = (fn.rsplit('/', 1)[-1][:-3], tb.tb_frame.f_code.co_name, tb.tb_lineno)
        tb = tb.tb_next
    return hit


def guarded(ctx, monitor_name, fn, *args, **kwargs):
    """Call library code; an exception escaping it on a valid input is a violation.

    Returns (True, result) or (False, None).  The classifier key names the
    innermost package function and the exception type, never the input.
    """
    try:
        res = fn(*args, **kwargs)
    except HarnessError:
        raise
    except LoopBoundExceeded as e:
        ctx.violation('loop', f'loop:{e.loopkey}', str(e), call=monitor_name)
        return False, None
    except Exception as e:
        where = package_frame_of(e.__traceback__)
        site = f'{where[0]}.{where[1]}' if where else 'outside-package'
        ctx.violation(monitor_name, f'raise:{site}:{type(e).__name__}',
                      f'{type(e).__name__}: {e} (at {where})', call=monitor_name)
        return False, None
    _OWN[0] += 1
    if _OWN[0] % 5 == 0:
        _ownership_probe(ctx, monitor_name, fn, args, kwargs, res)
    return True, res


_OWN = [0]
_PROBING = [False]


def _ownership_probe(ctx, label, fn, args, kwargs, res):
    """An array handed to the caller belongs to the caller: after the harness has written into the returned arrays, the
    same call must still return what it returned the first time (a memo / scratch buffer handed out without a copy is
    silently edited by the caller's own, perfectly legal, in-place arithmetic on its result).  Every fifth harness-level
    call; the returned arrays are restored afterwards."""
    import numpy as np
    arrs = [a for a in _arrays(res, []) if 0 < a.size <= 4096 and a.flags.writeable and a.dtype.kind in 'iufb']
    if not arrs:
        return
    ins = _arrays(list(args) + list(kwargs.values()), [])
    for cell in (getattr(fn, '__closure__', None) or ()):
        try:
            v = cell.cell_contents
        except ValueError:
            continue
        if isinstance(v, dict):
            v = list(v.values())
        _arrays(v if isinstance(v, (list, tuple, np.ndarray)) else [getattr(v, k) for k in dir(v) if not k.startswith('__')][:40]
                if hasattr(v, '__dict__') else [], ins)
    if any(np.may_share_memory(a, b) for a in arrs for b in ins):
        return                          # views of the caller's own input: the caller owns that storage anyway
    saved = [a.copy() for a in arrs]
    for a in arrs:
        if a.dtype.kind == 'b':
            np.logical_not(a, out=a)
        elif a.dtype.kind == 'f':
            a *= -3.0
            a += 7.0
        else:
            a += 1000003
    _PROBING[0] = True
    try:
        try:
            res2 = fn(*args, **kwargs)
        except (HarnessError, LoopBoundExceeded):
            raise
        except Exception as e:
            ctx.violation('result-ownership', f'aliasing:returned-array-shared:{label}',
                          f'{label}: after the caller wrote into the arrays it had been handed, the same call raised {type(e).__name__}: {e}')
            return
        arrs2 = [a for a in _arrays(res2, []) if 0 < a.size <= 4096 and a.dtype.kind in 'iufb']
        same = len(arrs2) == len(saved) and all(x.shape == y.shape and np.array_equal(x, y, equal_nan=(y.dtype.kind == 'f'))
                                                for x, y in zip(arrs2, saved))
        ctx.check(same, 'result-ownership', f'aliasing:returned-array-shared:{label}',
                  f'{label}: after the caller wrote into the arrays it had been handed, the same call returns different values '
                  f'(the returned array is shared with internal state)',
                  first=saved[0][:20], again=(arrs2[0][:20] if arrs2 else None))
    finally:
        _PROBING[0] = False
        for a, c in zip(arrs, saved):
            a[...] = c
