"""Load-time link monitor: resolve names, module attributes and intra-package call
signatures of the LIVE function objects of the imported package.

This is not a source-text lint: it runs in the process that imported the real
dependencies and resolves against live ``__globals__``, live module objects and
``inspect.signature`` of the live callees.  It is the only monitor that covers
code paths no workload reaches.
"""
import ast
import builtins
import dis
import enum
import importlib.util
import inspect
import textwrap
import types


def package_functions(mods):
    """(module short name, qualified name, python function) for every function defined in the package."""
    out = []
    for short, mod in mods.items():
        for name, obj in list(vars(mod).items()):
            f = getattr(obj, '_original', obj)
            f = getattr(f, 'py_func', f)
            if inspect.isfunction(f) and f.__module__ == mod.__name__:
                out.append((short, name, f))
            elif inspect.isclass(obj) and obj.__module__ == mod.__name__:
                for mname, m in vars(obj).items():
                    if inspect.isfunction(m) and m.__code__.co_filename == getattr(mod, '__file__', None):
                        out.append((short, f'{name}.{mname}', m))
    return out


def _codes(code):
    yield code
    for c in code.co_consts:
        if isinstance(c, types.CodeType):
            yield from _codes(c)


def _unwrap(obj):
    obj = getattr(obj, '_original', obj)
    return getattr(obj, 'py_func', obj)


def _is_container(obj):
    return inspect.ismodule(obj) or inspect.isclass(obj)


class Resolver:
    def __init__(self, func):
        self.func = func
        self.g = func.__globals__
        self.localnames = set()
        for c in _codes(func.__code__):
            self.localnames.update(c.co_varnames)
            self.localnames.update(c.co_cellvars)
            self.localnames.update(c.co_freevars)

    def lookup_global(self, name):
        if name in self.g:
            return True, self.g[name]
        if hasattr(builtins, name):
            return True, getattr(builtins, name)
        return False, None

    def resolve_expr(self, node):
        """Live object an expression denotes, if it is a chain rooted at a global module/class.

        Returns (status, obj, text): status in 'ok', 'unknown', 'missing'.
        """
        chain = []
        cur = node
        while isinstance(cur, ast.Attribute):
            chain.append(cur.attr)
            cur = cur.value
        if not isinstance(cur, ast.Name):
            return 'unknown', None, ''
        if cur.id in self.localnames:
            return 'unknown', None, ''
        found, obj = self.lookup_global(cur.id)
        text = cur.id
        if not found:
            return 'unknown', None, text      # reported by the name pass
        for attr in reversed(chain):
            if not _is_container(obj):
                return 'unknown', None, text
            if isinstance(obj, type) and issubclass(obj, enum.Enum) and attr in ('value', 'name'):
                return 'unknown', None, text
            text += '.' + attr
            try:
                obj = getattr(obj, attr)
            except AttributeError:
                return 'missing', None, text
        return 'ok', obj, text


def _return_arity(func, depth=0):
    """Fixed tuple arity of every return of func, or None when it is not syntactically fixed."""
    try:
        tree = ast.parse(textwrap.dedent(inspect.getsource(func)))
    except (OSError, SyntaxError, TypeError):
        return None
    fdef = tree.body[0]
    arities = set()

    class V(ast.NodeVisitor):
        def visit_FunctionDef(self, node):
            if node is fdef:
                self.generic_visit(node)

        def visit_Lambda(self, node):
            pass

        def visit_Return(self, node):
            v = node.value
            if isinstance(v, ast.Tuple) and not any(isinstance(e, ast.Starred) for e in v.elts):
                arities.add(len(v.elts))
            else:
                arities.add(None)
    V().visit(tree)
    if len(arities) == 1 and None not in arities:
        return arities.pop()
    return None


def check_function(short, qual, func):
    """Yield (kind, site, detail) for every unresolved reference of one live function."""
    where = f'{short}.{qual}'
    res = Resolver(func)
    # 1. every global name load resolves against live __globals__ / builtins
    seen = set()
    for code in _codes(func.__code__):
        for ins in dis.get_instructions(code):
            if ins.opname in ('LOAD_GLOBAL', 'LOAD_NAME') and ins.argval not in seen:
                seen.add(ins.argval)
                ok, _ = res.lookup_global(ins.argval)
                if not ok:
                    yield ('name', where, f'name {ins.argval!r} is not defined in module globals or builtins')
    # 2/3/4. attribute chains, call signatures, unpacking, local imports
    try:
        tree = ast.parse(textwrap.dedent(inspect.getsource(func)))
    except (OSError, SyntaxError, TypeError):
        return
    reported = set()
    for node in ast.walk(tree):
        if isinstance(node, ast.Attribute):
            status, obj, text = res.resolve_expr(node)
            if status == 'missing' and text not in reported:
                reported.add(text)
                yield ('attr', where, f'{text} does not exist on the live object')
        if isinstance(node, ast.Call):
            status, obj, text = res.resolve_expr(node.func)
            if status == 'ok':
                callee = _unwrap(obj)
                mod = getattr(callee, '__module__', '') or ''
                if inspect.isfunction(callee) and (mod.startswith('kneeliverse') or mod.startswith('uts')):
                    if not any(isinstance(a, ast.Starred) for a in node.args) and not any(k.arg is None for k in node.keywords):
                        try:
                            sig = inspect.signature(callee)
                            sig.bind(*([None] * len(node.args)), **{k.arg: None for k in node.keywords})
                        except TypeError as e:
                            yield ('arity', where, f'call {text}(...) with {len(node.args)} positional / '
                                                   f'{[k.arg for k in node.keywords]} keyword arguments does not bind to {sig}: {e}')
        if isinstance(node, ast.Assign) and len(node.targets) == 1 and isinstance(node.targets[0], ast.Tuple) \
                and isinstance(node.value, ast.Call):
            tgt = node.targets[0]
            if not any(isinstance(e, ast.Starred) for e in tgt.elts):
                status, obj, text = res.resolve_expr(node.value.func)
                if status == 'ok':
                    callee = _unwrap(obj)
                    if inspect.isfunction(callee) and (getattr(callee, '__module__', '') or '').startswith('kneeliverse'):
                        k = _return_arity(callee)
                        if k is not None and k != len(tgt.elts):
                            yield ('unpack', where, f'{len(tgt.elts)} names unpack the result of {text}(...), which returns {k}-tuples')
        if isinstance(node, (ast.Import, ast.ImportFrom)):
            names = [a.name for a in node.names] if isinstance(node, ast.Import) else [node.module]
            for nm in names:
                try:
                    spec = importlib.util.find_spec(nm) if nm else None
                except (ImportError, ValueError):
                    spec = None
                if nm and spec is None:
                    yield ('import', where, f'function-local import of {nm!r} cannot be resolved')


def run(mods):
    """All findings of the package: list of dicts; and the number of functions/references examined."""
    findings = []
    nfunc = 0
    for short, qual, func in package_functions(mods):
        nfunc += 1
        for kind, site, detail in check_function(short, qual, func):
            findings.append({'kind': kind, 'site': site, 'detail': detail})
    return findings, nfunc
