"""Recorder shared by all monitors of one shard: three-valued verdict bookkeeping.

Every monitor evaluation ends in ok / violation / out-of-domain.  Nothing here
decides a property; it only counts what the monitors observed so that the
parent can fold shards into a verdict and an evidence file.
"""
import hashlib
import traceback
from collections import Counter, defaultdict

import numpy as np


class HarnessError(Exception):
    """An oracle / generator failed: never a verdict about the code under test."""


class LoopBoundExceeded(BaseException):
    """Raised from the sys.monitoring callback inside the monitored call."""

    def __init__(self, loopkey, count, bound, info=''):
        super().__init__(f'{loopkey}: iteration {count} exceeds bound {bound} {info}')
        self.loopkey = loopkey
        self.count = count
        self.bound = bound
        self.info = info


def enc(o):
    """JSON-able encoding of witnesses and cases (arrays keep dtype)."""
    if isinstance(o, np.ndarray):
        return {'__nd__': o.tolist(), 'dtype': str(o.dtype), 'shape': list(o.shape)}
    if isinstance(o, (np.integer,)):
        return int(o)
    if isinstance(o, (np.floating,)):
        return float(o)
    if isinstance(o, (np.bool_,)):
        return bool(o)
    if isinstance(o, dict):
        return {str(k): enc(v) for k, v in o.items()}
    if isinstance(o, (list, tuple)):
        return [enc(v) for v in o]
    if isinstance(o, (str, int, float, bool)) or o is None:
        return o
    return repr(o)


def dec(o):
    if isinstance(o, dict):
        if '__nd__' in o:
            a = np.array(o['__nd__'], dtype=o['dtype'])
            return a.reshape(o['shape'])
        return {k: dec(v) for k, v in o.items()}
    if isinstance(o, list):
        return [dec(v) for v in o]
    return o


def digest(*parts):
    h = hashlib.blake2b(digest_size=8)
    for p in parts:
        if isinstance(p, np.ndarray):
            h.update(str(p.dtype).encode())
            h.update(str(p.shape).encode())
            h.update(np.ascontiguousarray(p).tobytes())
        else:
            h.update(repr(p).encode())
        h.update(b'|')
    return h.hexdigest()


class Ctx:
    MAX_STORED = 40

    def __init__(self, prop, tier, seed, shard, nshards):
        self.prop = prop
        self.tier = tier
        self.seed = seed
        self.shard = shard
        self.nshards = nshards
        self.counters = Counter()       # monitor -> evaluations that reached ok/violation
        self.oods = Counter()           # "monitor:reason" -> count
        self.violations = []            # stored witnesses (capped)
        self.vkeys = Counter()          # classifier key -> count (all, not capped)
        self.nontrivial = set()         # digests
        self.hist = defaultdict(Counter)
        self.maxstat = {}
        self.samples = []
        self.cases = 0
        self.case = None
        self.case_index = -1
        self.harness_errors = []

    # ---- per case
    def begin_case(self, index, case):
        self.case_index = index
        self.case = case
        self.cases += 1

    # ---- verdicts
    def ok(self, monitor, n=1):
        self.counters[monitor] += n

    def ood(self, monitor, reason):
        self.oods[f'{monitor}:{reason}'] += 1

    def violation(self, monitor, key, what, **witness):
        """key: mechanism/call-site classifier (never an input hash)."""
        self.counters[monitor] += 1
        self.vkeys[key] += 1
        if len(self.violations) < self.MAX_STORED or self.vkeys[key] <= 3:
            self.violations.append({
                'property': self.prop, 'monitor': monitor, 'key': key, 'what': what,
                'witness': enc(witness), 'case': enc(self.case),
                'case_index': self.case_index, 'seed': self.seed, 'shard': self.shard,
                'tier': self.tier,
            })

    def check(self, cond, monitor, key, what, **witness):
        if cond:
            self.counters[monitor] += 1
        else:
            self.violation(monitor, key, what, **witness)
        return bool(cond)

    # ---- coverage bookkeeping
    def nontriv(self, *parts):
        self.nontrivial.add(digest(*parts))

    def h(self, name, bucket, n=1):
        self.hist[name][str(bucket)] += n

    def mx(self, name, value):
        v = float(value)
        if name not in self.maxstat or v > self.maxstat[name]:
            self.maxstat[name] = v

    def sample(self, obj, cap=4):
        if len(self.samples) < cap:
            self.samples.append(enc(obj))

    def harness_error(self, where, exc):
        if len(self.harness_errors) < 5:
            self.harness_errors.append({
                'where': where, 'error': repr(exc),
                'traceback': traceback.format_exc(limit=12),
                'case': enc(self.case), 'case_index': self.case_index})
        else:
            self.harness_errors.append({'where': where, 'error': repr(exc)})

    def dump(self):
        return {
            'prop': self.prop, 'tier': self.tier, 'seed': self.seed, 'shard': self.shard,
            'cases': self.cases,
            'counters': dict(self.counters), 'oods': dict(self.oods),
            'violations': self.violations, 'vkeys': dict(self.vkeys),
            'nontrivial': sorted(self.nontrivial),
            'hist': {k: dict(v) for k, v in self.hist.items()},
            'maxstat': self.maxstat, 'samples': self.samples,
            'harness_errors': self.harness_errors,
        }
