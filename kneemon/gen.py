"""Input generators: hostile families of performance curves and representations.

All randomness comes from numpy Generators seeded by the runner from
(VERIF_SEED, property, shard).  Curves are returned as float64 C-contiguous
value arrays; ``present`` materialises the memory representation (the analogue
of schedule perturbation for this single-threaded numeric library).
"""
import os

import numpy as np

from . import boot

FAMILIES = ['mrc', 'noise', 'smallint', 'pwl', 'inv', 'expdecay', 'const',
            'collinear0', 'stairs', 'quad', 'testvec', 'trace', 'sigmoid']

HOSTILE = {'const', 'collinear0', 'smallint', 'stairs'}

TESTVECS = [
    [[1.0, 5.0], [2.0, 5.0], [3.0, 5.0], [4.0, 5.0], [5.0, 5.0], [6.0, 5.0]],
    [[1, 5], [2, 5], [3, 5], [4, 4], [5, 3], [6, 2], [7, 1], [8, 1], [9, 1], [10, 1], [11, 1]],
    [[0, 0], [1, 1], [2, 2], [3, 3], [4, 2], [5, 1], [6, 0]],
    [[1, 2], [4, 1], [7, 0]],
    [[0, 0], [1, 9], [3, 27]],
    [[0, 5], [1, 5], [2, 0], [3, 0]],
    [[1, 1], [2, 0.5], [3, 1 / 3], [4, 0.25], [5, 0.2], [6, 1 / 6], [7, 1 / 7], [8, 0.125], [9, 1 / 9], [10, 0.1]],
    [[0, 1], [1, 2], [2, 3], [3, 4], [4, 5]],
    [[1, 1], [2, 2], [3, 3], [4, 4], [5, 5], [6, 6], [7, 7], [8, 8]],
    [[0.0, 6.0], [1.0, 5.0], [2.0, 4.0], [3.0, 3.0], [4.0, 2.0], [5.0, 1.0], [6.0, 0.0]],
]

_traces = {}


def trace(name):
    """A bundled trace as an (n,2) array, or None when empty in this sandbox."""
    if name not in _traces:
        path = os.path.join(boot.REPO, 'traces', name)
        if not os.path.exists(path):        # scratch copies (KNEEMON_SRC) carry only src/
            path = os.path.join('/repo', 'traces', name)
        arr = None
        try:
            if os.path.getsize(path) > 0:
                arr = np.genfromtxt(path, delimiter=',')
                if arr.ndim != 2 or len(arr) < 2:
                    arr = None
        except OSError:
            arr = None
        _traces[name] = arr
    return _traces[name]


def xs(rng, n, pat=None):
    pat = pat if pat is not None else rng.integers(0, 10)
    if pat == 9:
        # index-like abscissae with a fractional jitter on part of the interior points: many sub-ranges span exactly
        # (number of points - 1) although their points are NOT evenly spaced
        x = np.arange(n, dtype=float) + float(rng.integers(0, 4))
        if n > 2:
            jit = rng.integers(-3, 4, n) / 8.0 * (rng.random(n) < 0.4)
            jit[0] = jit[-1] = 0.0
            x = x + jit
        return x, 9
    if pat == 8:
        # a regular grid up to a relative jitter of 1e-6 .. 1e-8 (sampling clock drift): NOT regular, although every
        # tolerance-based comparison of the steps says so
        h = float(10.0 ** rng.uniform(-3, 3))
        x = np.cumsum(h * (1.0 + rng.uniform(-1, 1, n) * 10.0 ** -int(rng.integers(6, 9))))
        return x, 8
    if pat == 7:
        # nanosecond units expressed in seconds: uneven gaps of 1e-9 .. 1e-11, far below any absolute tolerance
        x = np.cumsum(rng.uniform(0.05, 3.0, n)) * 10.0 ** -int(rng.integers(9, 12))
        return x, 7
    if pat == 6:
        # large origin, small increments (time stamps, byte offsets, monotonic ticks): relative x span 1e-5 .. 1e-14
        off = float(int(10.0 ** rng.uniform(6, 15)))
        return off + np.cumsum(rng.integers(1, 5, n)).astype(float), 6
    if pat == 5:
        # small units (seconds, GiB fractions): gaps of 1e-3 .. 1e-7
        x = np.cumsum(rng.uniform(0.05, 3.0, n)) * 10.0 ** -int(rng.integers(2, 7))
        return x, 5
    if pat == 0:
        x = np.arange(n, dtype=float) + float(rng.integers(0, 4))
    elif pat == 1:
        x = np.cumsum(rng.integers(1, 5, n)).astype(float)
    elif pat == 2:
        x = np.cumsum(rng.uniform(0.05, 3.0, n))
    elif pat == 3:
        x = np.cumsum(rng.integers(1, 5, n)).astype(float) * 10.0 ** int(rng.integers(1, 5))
    else:
        x = np.arange(1, n + 1, dtype=float)
    return x, int(pat)


def curve(rng, n=None, family=None, nmax=80, nmin=2):
    """One performance curve: n >= 2, finite, strictly increasing x, y >= 0."""
    fam = family or FAMILIES[int(rng.integers(0, len(FAMILIES)))]
    if n is None:
        r = rng.random()
        if r < 0.12:
            n = int(rng.integers(nmin, min(nmin + 4, nmax) + 1))
        else:
            n = int(rng.integers(nmin, nmax + 1))
    n = max(n, nmin)
    x, pat = xs(rng, n)
    if fam == 'mrc':
        steps = rng.exponential(1.0, n) * (rng.random(n) < rng.uniform(0.2, 1.0))
        y = np.cumsum(steps[::-1])[::-1]
        y = y / (y.max() if y.max() > 0 else 1.0)
        if rng.random() < 0.3:
            y = y * rng.uniform(0.2, 0.9) + rng.uniform(0.0, 0.1)
    elif fam == 'noise':
        y = rng.random(n) * 10.0 ** int(rng.integers(-3, 4))
    elif fam == 'smallint':
        y = rng.integers(0, int(rng.integers(2, 7)), n).astype(float)
        if rng.random() < 0.5:
            y = np.sort(y)[::-1].copy()
    elif fam == 'pwl':
        k = int(rng.integers(1, 5))
        cuts = np.sort(rng.integers(1, max(n - 1, 2), k))
        slopes = rng.integers(-4, 5, k + 1).astype(float)
        if rng.random() < 0.5:
            slopes = slopes / 8.0 + (0.1 if rng.random() < 0.5 else 0.0)
        seg = np.searchsorted(cuts, np.arange(n), side='right')
        dy = slopes[seg][:-1] * np.diff(x)
        y = np.concatenate(([0.0], np.cumsum(dy)))
        y = y - y.min() + float(rng.integers(0, 3))
    elif fam == 'inv':
        y = (1.0 / (x - x[0] + 1.0)) * 10.0 ** int(rng.integers(-2, 3))
    elif fam == 'expdecay':
        tau = rng.uniform(0.05, 0.6) * (x[-1] - x[0] + 1.0)
        y = np.exp(-(x - x[0]) / tau) * 10.0 ** int(rng.integers(-8, 17))
    elif fam == 'const':
        c = [0.0, 1.0, 5.0, 0.3, 1e-9, 1e9][int(rng.integers(0, 6))]
        y = np.full(n, c)
    elif fam == 'collinear0':
        s = [1.0, 1.0 / 3.0, 0.5, 3.0, 0.1, 9.0][int(rng.integers(0, 6))]
        if rng.random() < 0.7:
            y = s * (x[-1] - x)              # falls to exactly 0 at the end
        else:
            y = s * (x - x[0])               # rises from 0
        if rng.random() < 0.25 and n > 4:     # a collinear run that is only the tail
            m = int(rng.integers(1, n - 2))
            y[:m] = y[:m] + rng.random(m) * (1.0 + y[m])
    elif fam == 'stairs':
        levels = np.sort(rng.random(3))[::-1] * 10.0 ** int(rng.integers(-1, 3))
        cuts = np.sort(rng.integers(0, n, 2))
        y = levels[np.searchsorted(cuts, np.arange(n), side='right')]
    elif fam == 'quad':
        t = (x - x[0]) / max(x[-1] - x[0], 1e-300)
        a = rng.uniform(0.2, 5.0)
        y = a * (t - rng.uniform(-0.2, 1.2)) ** 2
        if rng.random() < 0.5:
            y = y.max() - y
    elif fam == 'sigmoid':
        # S-shaped (logistic) curves: balanced around their chord, so every "which side of the chord?" vote is a near tie
        t = (x - x[0]) / max(x[-1] - x[0], 1e-300)
        k = float(rng.uniform(4.0, 40.0))
        mid = 0.5 if rng.random() < 0.6 else float(rng.uniform(0.3, 0.7))
        if mid == 0.5:
            # exactly balanced: evenly spaced samples of a curve that is point-symmetric about the middle of its chord
            x = np.arange(n, dtype=float) * float([1.0, 1.0, 0.5, 4.0][int(rng.integers(0, 4))]) + float(rng.integers(0, 4))
            t = (x - x[0]) / max(x[-1] - x[0], 1e-300)
        y = 1.0 / (1.0 + np.exp(-k * (t - mid)))
        if rng.random() < 0.5:
            y = 1.0 - y
        y = y * float(10.0 ** int(rng.integers(-2, 4)))
    elif fam == 'testvec':
        v = np.array(TESTVECS[int(rng.integers(0, len(TESTVECS)))], dtype=float)
        return np.ascontiguousarray(v), {'family': fam, 'xpat': -1}
    elif fam == 'trace':
        names = [t for t in ('usr0.csv', 'web0_reduced.csv', 'web2.csv') if trace(t) is not None]
        if not names:
            return curve(rng, n, 'mrc', nmax, nmin)
        tr = trace(names[int(rng.integers(0, len(names)))])
        m = len(tr)
        if rng.random() < 0.5:
            start = int(rng.integers(0, max(m - n, 1)))
            v = tr[start:start + n]
        else:
            stride = max(int(rng.integers(1, max(m // max(n, 1), 1) + 1)), 1)
            v = tr[::stride][:n]
        if len(v) < nmin:
            v = tr[:max(n, nmin)]
        return np.ascontiguousarray(v, dtype=float), {'family': fam, 'xpat': -1}
    else:
        raise ValueError(fam)
    y = np.where(y < 0, 0.0, y)
    if rng.random() < 0.05 and fam != 'const':
        # large base level (latencies in ns, counters): the mean of y is 1e2 .. 1e8 times its spread
        y = y + (float(np.max(y)) or 1.0) * 10.0 ** float(rng.uniform(2, 8))
        fam = fam + '+offset'
    pts = np.column_stack((x, y)).astype(float)
    return np.ascontiguousarray(pts), {'family': fam, 'xpat': pat}


def large_int_curve(rng, n=None, nmax=60):
    """Integral coordinates of magnitude 1e9..1e10 (bytes, microseconds, counters), to be presented as int64:
    individual values and differences are exact, but products of two differences exceed 2**63."""
    n = n or int(rng.integers(5, nmax + 1))
    x = np.cumsum(rng.integers(1, 9, n)).astype(float) * float(10 ** int(rng.integers(8, 10)))
    kind = int(rng.integers(0, 4))
    if kind == 3:
        # a few levels visited again and again (a counter returning to its base): ranges whose two ends are equally high
        y = rng.choice(rng.integers(0, 10 ** 4, int(rng.integers(2, 5))), n).astype(float)
    elif kind == 0:
        y = np.sort(rng.integers(0, 10 ** 4, n))[::-1].astype(float)
    elif kind == 1:
        y = np.round(1e4 / (np.arange(n) + 1.0))
    else:
        y = rng.integers(0, 10 ** 4, n).astype(float)
    y = y * float(10 ** int(rng.integers(5, 7)))
    return np.ascontiguousarray(np.column_stack((x, y)))


def tall_int_curve(rng, nmax=60, nmin=5):
    """int64-presentable curve with small integral x steps and huge integral y steps (byte counts against a block index):
    y differences exceed 3.04e9, so their squares do not fit int64, while x-difference * y-difference products do."""
    n = int(rng.integers(nmin, nmax + 1))
    x = np.cumsum(rng.integers(1, 5, n)).astype(float)
    kind = int(rng.integers(0, 3))
    if kind == 0:
        y = np.sort(rng.integers(0, 10 ** 4, n))[::-1].astype(float)
    elif kind == 1:
        y = np.round(1e4 / (np.arange(n) + 1.0))
    else:
        y = rng.integers(0, 10 ** 4, n).astype(float)
    y = y * float(10 ** int(rng.integers(7, 10)))
    return np.ascontiguousarray(np.column_stack((x, y)))


def block_size(rng, n, p=0.5):
    """With probability p, move a (long) curve length to a block boundary: a multiple of 256 (powers of two included) -1, +0
    or +1 - where blocked, strided or grid-seeded code changes path or meets its own last element."""
    if rng.random() < p:
        n = max(256 * int(round(n / 256.0)), 256) + int(rng.integers(-1, 2))
    return n


def long_spiky(rng, nlo=4200, nhi=9000):
    """A long curve (thousands of points) whose farthest points are narrow features: a gently bowed base line with a
    few spikes 1..5 samples wide and a step, away from the apex of the smooth trend.  Any search that looks at a
    subsample of a long range, or stops early, misses them."""
    n = int(rng.integers(nlo, nhi + 1))
    if rng.random() < 0.5:
        # sizes at block boundaries (multiples of 256 and powers of two, +-1): where blocked / two-level code changes path
        n = min(max(256 * int(round(n / 256.0)) + int(rng.integers(-1, 2)), nlo), nhi + 1)
    x = np.arange(n, dtype=float) + float(rng.integers(0, 3))
    if rng.random() < 0.3:
        x = np.cumsum(rng.integers(1, 4, n)).astype(float)
    u = (x - x[0]) / (x[-1] - x[0])
    amp = float(rng.uniform(5.0, 60.0))
    y = 1000.0 - 400.0 * u + amp * 4.0 * u * (1.0 - u) * (1.0 if rng.random() < 0.5 else -1.0)
    for _ in range(int(rng.integers(1, 4))):
        w = int(rng.integers(1, 6))
        c = int(rng.integers(n // 8, n - n // 8))
        if abs(c - n // 2) < n // 10:
            c += n // 5
        c = min(c, n - w - 2)
        h = amp * float(rng.uniform(3.0, 12.0)) * (1.0 if rng.random() < 0.7 else -0.5)
        y[c:c + w] += h
    if rng.random() < 0.5:
        c = int(rng.integers(n // 8, n - n // 8))
        y[c:] -= amp * float(rng.uniform(0.5, 2.0))
    y = np.round(y - min(0.0, float(y.min())), 3)
    return np.ascontiguousarray(np.column_stack((x, y)))


LAYOUTS = ['C', 'F', 'view', 'i64']


def pick_layout(rng, values, p_default=0.7):
    if rng.random() < p_default:
        return 'C'
    lay = (LAYOUTS + ['reuse'])[int(rng.integers(1, 5))]
    if lay == 'i64' and not is_integral(values):
        lay = 'F'
    return lay


def is_integral(a):
    a = np.asarray(a)
    return bool(a.size) and bool(np.all(np.isfinite(a))) and bool(np.all(a == np.round(a))) \
        and bool(np.all(np.abs(a) < 2 ** 52))


def present(values, layout):
    """Materialise one memory representation of the same values."""
    v = np.asarray(values)
    if layout == 'C':
        return np.ascontiguousarray(v, dtype=float)
    if layout == 'F':
        return np.asfortranarray(np.array(v, dtype=float))
    if layout == 'view':
        if v.ndim == 2:
            big = np.full((2 * len(v) + 3, v.shape[1] + 2), -7.0)
            big[1:1 + 2 * len(v):2, 1:1 + v.shape[1]] = v
            return big[1:1 + 2 * len(v):2, 1:1 + v.shape[1]]
        big = np.full(2 * len(v) + 3, -7.0)
        big[1:1 + 2 * len(v):2] = v
        return big[1:1 + 2 * len(v):2]
    if layout == 'i64':
        return np.ascontiguousarray(v).astype(np.int64)
    if layout == 'reuse':
        # the caller's buffer is refilled with new values: same object identity, shape and address as an earlier
        # call, different contents (hostile to any state the library might key on id()/shape instead of values)
        buf = _REUSE.get(v.shape)
        if buf is None:
            buf = _REUSE[v.shape] = np.empty(v.shape, dtype=float)
        buf[...] = v
        return buf
    raise ValueError(layout)


_REUSE = {}


def threshold(rng, cost=None):
    """t > 0 spread over orders of magnitude (t <= 1 for R2)."""
    u = rng.random()
    if cost == 'r2':
        if u < 0.05:
            return 1.0                       # the boundary of the stated domain (t <= 1 for R2)
        if u < 0.07:
            return 0.0                       # the other boundary: every fit with R2 >= 0 is acceptable
        return float(rng.uniform(0.0, 1.0)) if rng.random() < 0.8 else float(1.0 - 10 ** rng.uniform(-6, -1))
    if u < 0.02:
        return 0.0                           # nothing is acceptable (cost < 0 never holds): full refinement
    if u < 0.04:
        return float([1.0, 2.0, 10.0][int(rng.integers(0, 3))])   # at / above the largest value the relative metrics can take
    return float(10.0 ** rng.uniform(-4, 0))


def knee_subset(rng, n, kmin=1, kmax=12, lo=1, hi=None):
    """Ascending interior index subset of a curve with n points."""
    hi = n - 2 if hi is None else hi
    if hi < lo:
        return np.array([], dtype=int)
    pool = np.arange(lo, hi + 1)
    k = int(rng.integers(kmin, max(min(kmax, len(pool)), kmin) + 1))
    k = min(k, len(pool))
    return np.sort(rng.choice(pool, size=k, replace=False)).astype(int)
