"""Runner: shards, verdict folding, evidence, known findings, replay.

    python -m kneemon.runner <Cxx> <quick|thorough> [--replay FILE] [--shards N]

Exit 0: property held on everything explored and every deciding monitor saw
enough evaluations.  Exit 1 + ``VIOLATION property=<id> replay=<path>``: an
unlisted violation.  Exit 2 + ``INCONCLUSIVE``: starved monitor, watchdog or
harness error (never folded into either of the others).
"""
import argparse
import fnmatch
import importlib
import json
import os
import subprocess
import sys
import tempfile
import time
from collections import Counter

VERIF = os.path.dirname(os.path.dirname(os.path.abspath(__file__)))
PY = sys.executable


def _dg(*parts):
    import hashlib
    return hashlib.blake2b(repr(parts).encode(), digest_size=6).hexdigest()


def load_known():
    path = os.path.join(VERIF, 'known_findings.json')
    try:
        with open(path) as f:
            return json.load(f).get('findings', [])
    except FileNotFoundError:
        return []


def known_match(known, prop, key):
    for k in known:
        if k.get('status') == 'open' and k.get('property') == prop and fnmatch.fnmatchcase(key, k['key']):
            return k
    return None


# ------------------------------------------------------------------ shard side

def run_shard(prop, tier, seed, shard, nshards, out, replay=None):
    import numpy as np
    from . import boot
    from .ctx import Ctx, HarnessError, LoopBoundExceeded, dec
    boot.boot()
    mods = boot.modules()
    mod = importlib.import_module(f'kneemon.props.{prop.lower()}')
    ctx = Ctx(prop, tier, seed, shard, nshards)
    t0 = time.time()
    state = mod.setup(ctx, mods)
    loopmon = state.get('loops') if isinstance(state, dict) else None
    if loopmon is not None:
        loopmon.start()
    if shard < 0 or (replay is not None and isinstance(replay.get('case'), dict) and replay['case'].get('kind') == 'repo-test'):
        # the repository's own tests as an additional workload under this property's monitors
        node = replay['case'].get('nodeid') if replay is not None else None
        run_repo_tests(ctx, boot, node)
        cases = []
    elif replay is not None:
        cases = [dec(replay['case'])]
    else:
        rng = np.random.default_rng([seed, int(prop[1:]), shard])
        cases = mod.cases(rng, tier, shard, nshards)
    budget = float(os.environ.get('KNEEMON_SHARD_BUDGET_S', '0') or 0)
    refill = bool(getattr(mod, 'META', {}).get('refill'))
    for i, case in enumerate(cases):
        ctx.begin_case(i, case)
        try:
            mod.run_case(ctx, mods, case)
        except LoopBoundExceeded as e:
            ctx.violation('loop', f'loop:{e.loopkey}', str(e))
        except HarnessError as e:
            ctx.harness_error('run_case', e)
        except Exception as e:   # anything escaping run_case is a harness problem
            ctx.harness_error('run_case', e)
        if refill and isinstance(case, dict) and case.get('layout') == 'reuse' and not case.get('refilled') \
                and (not hasattr(mod, 'refill_ok') or mod.refill_ok(case)) \
                and isinstance(case.get('points'), np.ndarray) and case['points'].ndim == 2 and len(case['points']) >= 2:
            # history: the caller refills the SAME buffer (same object, shape, address) with another curve and calls
            # again - any state the library keeps per array identity instead of per value is now stale
            case2 = dict(case, points=refill_values(case['points']), refilled=True)
            ctx.begin_case(i, case2)
            ctx.h('history', 'same buffer refilled with a transformed curve')
            try:
                mod.run_case(ctx, mods, case2)
            except LoopBoundExceeded as e:
                ctx.violation('loop', f'loop:{e.loopkey}', str(e))
            except Exception as e:
                ctx.harness_error('run_case(refill)', e)
        if len(ctx.harness_errors) > 20:
            break
        if budget and time.time() - t0 > budget:
            ctx.h('runner', 'budget_cut')
            break
    if hasattr(mod, 'finish'):
        try:
            mod.finish(ctx, mods)
        except Exception as e:
            ctx.harness_error('finish', e)
    d = ctx.dump()
    d['wall_s'] = time.time() - t0
    if loopmon is not None:
        d['loops'] = loopmon.stats()
        loopmon.stop()
    with open(out, 'w') as f:
        json.dump(d, f)


def refill_values(points):
    """Another valid curve of the same shape: the x gaps in reverse order and doubled (x stays strictly increasing, and
    integral if it was; the spacing pattern - not only the scale - changes), y mirrored and halved (stays inside
    [min y, max y]); both ranges change."""
    import numpy as np
    p = np.array(points, dtype=float)
    x, y = p[:, 0], p[:, 1]
    if len(x) > 1:
        p[1:, 0] = x[0] + 2.0 * np.cumsum(np.diff(x)[::-1])
    p[:, 1] = (y.max() - y) * 0.5 + y.min()
    return p


def run_repo_tests(ctx, boot, nodeid=None):
    """Run /repo/test in-process with the property's monitors installed (verdicts flow into ctx)."""
    import pytest
    from .ctx import HarnessError, LoopBoundExceeded
    testdir = os.path.join(boot.REPO, 'test')
    if not os.path.isdir(testdir):
        testdir = '/repo/test'
    os.chdir(os.path.dirname(testdir))
    sys.path.insert(0, os.path.dirname(testdir))

    class Plugin:
        def pytest_runtest_setup(self, item):
            ctx.begin_case(ctx.cases, {'kind': 'repo-test', 'nodeid': item.nodeid})

        def pytest_runtest_makereport(self, item, call):
            if call.when != 'call':
                return
            if call.excinfo is None:
                ctx.h('repo_tests', 'passed')
                return
            exc = call.excinfo.value
            if isinstance(exc, LoopBoundExceeded):
                ctx.violation('loop', f'loop:{exc.loopkey}', f'{exc} (in repository test {item.nodeid})')
            elif isinstance(exc, HarnessError):
                ctx.harness_error('repo-test ' + item.nodeid, exc)
            else:
                ctx.h('repo_tests', 'failed')
                ctx.h('repo_tests_failed', item.nodeid)

    args = ['-q', '-p', 'no:cacheprovider', '--no-header', '-W', 'ignore', nodeid or testdir]
    pytest.main(args, plugins=[Plugin()])


# ----------------------------------------------------------------- parent side

def fold(prop, tier, seed, results, mod_meta, wall, timed_out, crashed):
    known = load_known()
    counters, oods, vkeys = Counter(), Counter(), Counter()
    hist, maxstat, loops = {}, {}, {}
    nontrivial = set()
    samples, violations, herrs = [], [], []
    cases = 0
    for r in results:
        cases += r['cases']
        counters.update(r['counters'])
        oods.update(r['oods'])
        vkeys.update(r['vkeys'])
        nontrivial.update(r['nontrivial'])
        for k, v in r['hist'].items():
            hist.setdefault(k, Counter()).update(v)
        for k, v in r['maxstat'].items():
            maxstat[k] = max(maxstat.get(k, v), v)
        for k, v in r.get('loops', {}).items():
            cur = loops.setdefault(k, {'activations': 0, 'max_iterations': 0, 'max_ratio_to_bound': 0.0})
            cur['activations'] += v['activations']
            cur['max_iterations'] = max(cur['max_iterations'], v['max_iterations'])
            cur['max_ratio_to_bound'] = max(cur['max_ratio_to_bound'], v['max_ratio_to_bound'])
        samples.extend(r['samples'])
        violations.extend(r['violations'])
        herrs.extend(r['harness_errors'])

    lines = []
    unlisted = []
    listed = {}
    for key, n in sorted(vkeys.items()):
        k = known_match(known, prop, key)
        if k is not None:
            listed[key] = (k, n)
        else:
            unlisted.append((key, n))
    for key, (k, n) in listed.items():
        lines.append(f"KNOWN-FINDING: property={prop} {k['what']} [key={key}, observed {n}x]")

    replay_path = None
    if unlisted:
        os.makedirs(os.path.join(VERIF, 'replays'), exist_ok=True)
        seen = set()
        for v in violations:
            if known_match(known, prop, v['key']) is not None or v['key'] in seen:
                continue
            seen.add(v['key'])
            name = f"{prop}-{_dg(v['key'], v['seed'], v['shard'], v['case_index'], v['tier'])}.json"
            p = os.path.join(VERIF, 'replays', name)
            with open(p, 'w') as f:
                json.dump(v, f, indent=1)
            if replay_path is None:
                replay_path = p
            lines.append(f"  violation key={v['key']} count={vkeys[v['key']]} monitor={v['monitor']}: {v['what'][:300]}")
            lines.append(f"  replay: ./check {prop} --replay {p}")

    # starvation: every deciding monitor must have been reached
    scale = mod_meta.get('scale', {}).get(tier, 1)
    starved = []
    for m, need in ({} if mod_meta.get('_replay') else mod_meta.get('require', {})).items():
        need = need * scale if m not in mod_meta.get('noscale', ()) else need
        got = counters.get(m, 0) if not m.startswith('hist:') else sum(hist.get(m[5:], {}).values())
        if m.startswith('nontrivial'):
            got = len(nontrivial)
        if got < need:
            starved.append(f'{m}:{got}<{need}')

    status = 'held'
    if unlisted:
        status = 'violated'
    elif herrs or timed_out or crashed or starved:
        status = 'inconclusive'

    evidence = {
        'property_id': prop, 'tier': tier, 'seed': seed, 'level': 'exploration',
        'coverage': {
            'evaluations': int(sum(counters.values())),
            'distinct_nontrivial': len(nontrivial),
            'rule': mod_meta.get('rule', ''),
            'samples': samples[:6],
            'cases_generated': cases,
            'monitor_evaluations': dict(sorted(counters.items())),
            'out_of_domain': dict(sorted(oods.items())),
            'histograms': {k: dict(sorted(v.items(), key=lambda kv: -kv[1])[:40]) for k, v in sorted(hist.items())},
            'max_observed': maxstat,
            'loops': loops,
            'violation_keys': dict(vkeys),
            'known_findings_observed': {k: n for k, (_, n) in listed.items()},
            'status': status,
            'starved_monitors': starved,
            'shards': len(results), 'shards_timed_out': timed_out, 'shards_crashed': crashed,
            'harness_errors': len(herrs),
            'exhaustive': bool(mod_meta.get('exhaustive', {}).get(tier, False)),
        },
        'assumptions': mod_meta.get('assumptions', []),
        'wall_s': round(wall, 2),
        'violations': int(sum(n for _, n in unlisted)),
    }
    if not os.environ.get('KNEEMON_NO_EVIDENCE'):      # set only by the self-validation tools (runs against mutated scratch copies)
        os.makedirs(os.path.join(VERIF, 'evidence'), exist_ok=True)
        with open(os.path.join(VERIF, 'evidence', f'{prop}.json'), 'w') as f:
            json.dump(evidence, f, indent=1)

    for ln in lines:
        print(ln)
    summary = (f'{prop} {tier} seed={seed}: {status}; cases={cases} evaluations={sum(counters.values())} '
               f'nontrivial={len(nontrivial)} violations={sum(vkeys.values())} '
               f'(unlisted {sum(n for _, n in unlisted)}) ood={sum(oods.values())} wall={wall:.1f}s')
    print(summary)
    if status == 'violated':
        print(f'VIOLATION property={prop} replay={replay_path}')
        return 1
    if status == 'inconclusive':
        why = []
        if herrs:
            why.append(f"harness_errors={len(herrs)} first={herrs[0].get('error')}")
            if herrs[0].get('traceback'):
                print(herrs[0]['traceback'])
        if timed_out:
            why.append(f'watchdog={timed_out}')
        if crashed:
            why.append(f'crashed={crashed}')
        if starved:
            why.append('starved=' + ','.join(starved))
        print(f"INCONCLUSIVE property={prop} reason={'; '.join(why)}")
        return 2
    return 0


def main(argv=None):
    ap = argparse.ArgumentParser()
    ap.add_argument('prop')
    ap.add_argument('tier', nargs='?', default=None)
    ap.add_argument('--replay')
    ap.add_argument('--shards', type=int)
    ap.add_argument('--_shard', nargs=3)   # internal: shard nshards outfile
    a = ap.parse_args(argv)
    prop = a.prop.upper()
    tier = a.tier or os.environ.get('VERIF_TIER') or 'quick'
    seed = int(os.environ.get('VERIF_SEED', '0') or 0)

    if a._shard:
        replay = None
        if a.replay:
            with open(a.replay) as f:
                replay = json.load(f)
        run_shard(prop, tier, seed, int(a._shard[0]), int(a._shard[1]), a._shard[2], replay)
        return 0

    sys.path.insert(0, VERIF)
    meta = importlib.import_module(f'kneemon.props.{prop.lower()}').META

    if a.replay:
        with open(a.replay) as f:
            rp = json.load(f)
        tier = rp.get('tier', tier)
        seed = rp.get('seed', seed)
        nshards = 1
        meta = dict(meta, _replay=True)
    else:
        nshards = a.shards or meta.get('shards', {}).get(tier, 8 if tier == 'quick' else 16)
    timeout = meta.get('timeout', {}).get(tier, 900 if tier == 'quick' else 3600)

    env = dict(os.environ)
    env.update({'KNEEMON': '1', 'PYTHONHASHSEED': '0', 'PYTHONDONTWRITEBYTECODE': '1',
                'VERIF_SEED': str(seed), 'PYTHONPATH': VERIF, 'MPLBACKEND': 'Agg',
                'OMP_NUM_THREADS': '1', 'OPENBLAS_NUM_THREADS': '1', 'MKL_NUM_THREADS': '1',
                'NUMBA_NUM_THREADS': '1'})
    t0 = time.time()
    tmp = tempfile.mkdtemp(prefix=f'kneemon-{prop}-')
    procs = []
    for s in range(nshards):
        out = os.path.join(tmp, f'shard{s}.json')
        cmd = [PY, '-m', 'kneemon.runner', prop, tier, '--_shard', str(s), str(nshards), out]
        if a.replay:
            cmd += ['--replay', a.replay]
        log = open(os.path.join(tmp, f'shard{s}.log'), 'w')
        procs.append((s, out, log, subprocess.Popen(cmd, env=env, cwd=VERIF, stdout=log, stderr=subprocess.STDOUT)))
    if not a.replay and meta.get('repo_tests', True):
        out = os.path.join(tmp, 'shard-repotests.json')
        cmd = [PY, '-m', 'kneemon.runner', prop, tier, '--_shard', '-1', str(nshards), out]
        log = open(os.path.join(tmp, 'shard-repotests.log'), 'w')
        procs.append((-1, out, log, subprocess.Popen(cmd, env=env, cwd=VERIF, stdout=log, stderr=subprocess.STDOUT)))
    results, timed_out, crashed = [], 0, 0
    deadline = t0 + timeout
    for s, out, log, p in procs:
        try:
            p.wait(timeout=max(deadline - time.time(), 1))
        except subprocess.TimeoutExpired:
            p.kill()
            p.wait()
            timed_out += 1
            log.close()
            continue
        log.close()
        if p.returncode != 0 or not os.path.exists(out):
            crashed += 1
            with open(log.name) as f:
                tail = f.read()[-3000:]
            print(f'shard {s} crashed (rc={p.returncode}):\n{tail}')
            continue
        with open(out) as f:
            results.append(json.load(f))
    import shutil
    shutil.rmtree(tmp, ignore_errors=True)
    return fold(prop, tier, seed, results, meta, time.time() - t0, timed_out, crashed)


if __name__ == '__main__':
    sys.exit(main())
