"""Loop monitor: bounded-step verdicts for every ``while`` loop of the package.

sys.monitoring LINE events are enabled only on the code objects that contain a
``while`` and only the first body line of each loop keeps firing (every other
line returns DISABLE), so the steady-state cost is one callback per iteration.
Loops are identified by (module, function, ordinal) - never by line number.
Per activation the callback counts iterations against ``bound(locals)`` and
raises LoopBoundExceeded *inside* the monitored call on the first excess step:
non-termination is decided on logical steps, never on wall-clock time.
"""
import ast
import inspect
import math
import sys
import textwrap

from .ctx import LoopBoundExceeded

mon = sys.monitoring
TOOL = 3  # a free tool id (not DEBUGGER/COVERAGE/PROFILER/OPTIMIZER)


def _seq_len(v):
    try:
        return len(v)
    except Exception:
        return 0


def generic_bound(loc):
    n = 0
    for name in ('points', 'x', 'indexes', 'sorted_points', 'candidates', 'gradient',
                 'removed', 'sorted_removed', 'reduced'):
        if name in loc:
            n = max(n, _seq_len(loc[name]))
    return 2 * n + 8


class LoopMonitor:
    def __init__(self, ctx):
        self.ctx = ctx
        self.lines = {}       # code -> {line: loopkey}
        self.bounds = {}      # loopkey -> callable(locals)->int
        self.hooks = {}       # loopkey -> callable(frame, count) (variant monitors)
        self.counts = {}      # id(frame) -> {loopkey: count}
        self.maxiter = {}     # loopkey -> max iterations seen in one activation
        self.maxratio = {}    # loopkey -> max count/bound
        self.activations = {}
        self.loops = []
        self.started = False

    def add_function(self, modname, func, bounds=None, hooks=None):
        func = getattr(func, '_original', func)
        func = getattr(func, 'py_func', func)
        code = func.__code__
        try:
            src = inspect.getsource(func)
        except OSError:
            return []
        tree = ast.parse(textwrap.dedent(src))
        first = code.co_firstlineno
        keys = []
        whiles = [n for n in ast.walk(tree) if isinstance(n, ast.While)]
        whiles.sort(key=lambda n: n.lineno)
        for i, node in enumerate(whiles):
            key = f'{modname}.{func.__name__}#{i}'
            line = first + node.body[0].lineno - 1
            self.lines.setdefault(code, {})[line] = key
            self.bounds[key] = (bounds or {}).get(i, generic_bound)
            if hooks and i in hooks:
                self.hooks[key] = hooks[i]
            self.loops.append(key)
            keys.append(key)
        return keys

    def add_module(self, modname, module, overrides=None):
        """Monitor every while loop of every function defined in module."""
        overrides = overrides or {}
        for name, obj in list(vars(module).items()):
            f = getattr(obj, '_original', obj)
            f = getattr(f, 'py_func', f)
            if inspect.isfunction(f) and f.__module__ == module.__name__:
                o = overrides.get(f.__name__, {})
                self.add_function(modname, f, o.get('bounds'), o.get('hooks'))

    def start(self):
        if self.started or not self.lines:
            return
        mon.use_tool_id(TOOL, 'kneemon')
        mon.register_callback(TOOL, mon.events.LINE, self._line)
        mon.register_callback(TOOL, mon.events.PY_START, self._start)
        for code in self.lines:
            mon.set_local_events(TOOL, code, mon.events.LINE | mon.events.PY_START)
        self.started = True

    def stop(self):
        if not self.started:
            return
        for code in self.lines:
            mon.set_local_events(TOOL, code, 0)
        mon.register_callback(TOOL, mon.events.LINE, None)
        mon.register_callback(TOOL, mon.events.PY_START, None)
        mon.free_tool_id(TOOL)
        self.started = False

    def _start(self, code, offset):
        frame = sys._getframe(1)
        self.counts[id(frame)] = {}

    def _line(self, code, line):
        key = self.lines[code].get(line)
        if key is None:
            return mon.DISABLE
        frame = sys._getframe(1)
        per = self.counts.setdefault(id(frame), {})
        c = per.get(key, 0) + 1
        per[key] = c
        if c == 1:
            self.activations[key] = self.activations.get(key, 0) + 1
        if c > self.maxiter.get(key, 0):
            self.maxiter[key] = c
        loc = frame.f_locals
        b = self.bounds[key](loc)
        if b is None:
            return
        if b > 0:
            r = c / b
            if r > self.maxratio.get(key, 0.0):
                self.maxratio[key] = r
        hook = self.hooks.get(key)
        if hook is not None:
            hook(self, key, frame, loc, c)
        if c > b:
            raise LoopBoundExceeded(key, c, b)

    def stats(self):
        return {k: {'activations': self.activations.get(k, 0),
                    'max_iterations': self.maxiter.get(k, 0),
                    'max_ratio_to_bound': round(self.maxratio.get(k, 0.0), 4)}
                for k in self.loops}


# ---- property-specific bounds -------------------------------------------------

def rdp_bound(loc):
    n = _seq_len(loc.get('points', ()))
    return max(2 * n - 3, 1)


def rdp_variant_hook(self, key, frame, loc, count):
    """Variant sum(2*(r-l)-3) over the work stack must strictly decrease.

    Read at the first body line, i.e. after ``stack.pop()`` has not yet run:
    the stack seen here is the complete pending work of this iteration.
    """
    stack = loc.get('stack')
    if stack is None:
        return
    v = sum(2 * (r - l) - 3 for (l, r) in stack)
    per = self.counts[id(frame)]
    prev = per.get(key + ':variant')
    per[key + ':variant'] = v
    if prev is not None and not v < prev:
        raise LoopBoundExceeded(key, count, self.bounds[key](loc),
                                info=f'variant did not decrease: {prev} -> {v}')


def fixed_bound(loc):
    n = _seq_len(loc.get('points', ()))
    return max(n - 1, 1)


def lmethod_bound(loc):
    n = _seq_len(loc.get('points', ()))
    return n + 2


def zmethod_bound(loc):
    n = _seq_len(loc.get('y', loc.get('points', ())))
    try:
        mz = float(loc['min_zscore'])
        dz = float(loc['dz'])
        rounds = math.ceil(max(3.0 - mz, 0.0) / dz)
    except Exception:
        return None    # locals not bound yet: no verdict on this hit
    return 2 * (rounds + n) + 8


def standard(ctx, mods):
    """All 15 while loops of the package with their bounds."""
    lm = LoopMonitor(ctx)
    lm.add_module('rdp', mods['rdp'], {
        'rdp': {'bounds': {0: rdp_bound}, 'hooks': {0: rdp_variant_hook}},
        '_rdp_fixed': {'bounds': {0: fixed_bound}},
        '_grdp': {'bounds': {0: fixed_bound}},
    })
    lm.add_module('multi_knee', mods['multi_knee'])
    lm.add_module('dfdt', mods['dfdt'])
    lm.add_module('lmethod', mods['lmethod'], {'knee': {'bounds': {0: lmethod_bound}}})
    lm.add_module('zmethod', mods['zmethod'], {'getPoints': {'bounds': {0: zmethod_bound}}})
    lm.add_module('convex_hull', mods['convex_hull'])
    lm.add_module('evaluation', mods['evaluation'])
    return lm
