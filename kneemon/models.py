"""Independent (long double) reference models shared by several property modules.

Used where a property's oracle otherwise re-uses a library primitive (same-primitive rule): the primitive's value is
cross-checked against its definition on well-conditioned data, so that a broken shared primitive is observable in
every property that depends on it, not only in the property that owns the primitive (C16 / C17).
"""
import numpy as np

LD = np.longdouble
EPS = float(np.finfo(float).eps)


def endpoint_line_cost(pt, metric):
    """(value, absolute tolerance) of the end-point-line cost of a segment under `metric`, or None when the float64
    evaluation is ill-conditioned (relative metrics with y touching 0, R2 with a vanishing total sum of squares)."""
    p = np.asarray(pt)
    if p.ndim != 2 or len(p) < 3 or not np.all(np.isfinite(p.astype(float))):
        return None
    x = np.asarray(p[:, 0], dtype=LD)
    y = np.asarray(p[:, 1], dtype=LD)
    if x[0] == x[-1]:
        return None
    gaps = np.diff(np.asarray(p[:, 0], dtype=float))
    if np.min(gaps) <= 0:
        return None
    m = (y[0] - y[-1]) / (x[0] - x[-1])
    b = y[0] - m * x[0]
    yh = x * m + b
    ymax, ymin = float(np.max(np.abs(y))), float(np.min(y))
    if ymax > 1e100 or (ymax == 0 and metric != 'rss'):
        return None
    xr = float(np.max(np.abs(x))) / float(np.min(gaps))          # float64 error of y_hat is ~eps*|m*x| ~ eps*xr*|dy|
    e = LD(1e-16)
    if metric in ('smape', 'rpd', 'rmspe'):
        zero = np.asarray(y == 0)
        if np.any(zero):
            # exact zeros in y (idle periods, empty buckets): the term of such a sample is |y_hat|/eps-like - huge but perfectly
            # well defined as long as the line is clearly away from 0 there (float64 error of y_hat ~ eps*xr*ymax) and the
            # zero is not an end point (where y_hat is itself a rounding residue)
            delta = 256 * EPS * (xr + 1.0) * ymax
            if zero[0] or zero[-1] or not np.all(np.abs(np.asarray(yh, dtype=float)[zero]) >= 1e6 * delta + 1e-6):
                return None
            ymin = float(np.min(y[~zero]))
        if not ymin >= 1e-3 * ymax:
            return None
        if metric == 'smape':
            v = np.mean(2 * np.abs(yh - y) / (np.abs(y) + np.abs(yh) + e))
        elif metric == 'rpd':
            v = np.mean(np.abs((y - yh) / (np.maximum(y, yh) + e)))
        else:
            v = np.sqrt(np.mean(((y - yh) / (y + e)) ** 2))
        v = float(v)
        return v, 1e-6 * abs(v) + 256 * EPS * xr * (ymax / ymin)
    if metric == 'rmsle':
        if ymin < 0 or float(np.min(yh)) <= -1:
            return None
        # the float64 line m*x + b carries an absolute error of about eps*|m*x|; where that is not small against
        # y_hat + 1 the logarithm is ill-conditioned (the float evaluation may even leave its domain): no verdict
        if 256 * EPS * (xr + 1.0) * ymax > 1e-3 * (float(np.min(yh)) + 1.0):
            return None
        v = float(np.sqrt(np.mean((np.log(y + 1) - np.log(yh + 1)) ** 2)))
        return v, 1e-6 * abs(v) + 256 * EPS * (xr + 1.0) * ymax + 64 * EPS
    if metric == 'rss':
        rss = float(np.sum((y - yh) ** 2))
        abs_y = 256 * EPS * (xr + 1.0) * ymax
        return rss, 1e-6 * rss + 4 * abs_y * float(np.sqrt(rss * len(y)) + abs_y * len(y))
    if metric == 'r2':
        rss = np.sum((y - yh) ** 2)
        tss = np.sum((y - np.mean(y)) ** 2)
        # two-pass TSS in float64 carries an absolute error ~(eps*|y|max)^2*n: demand it to be 1e6 times smaller than TSS
        if not float(tss) > 1e6 * (EPS * ymax) ** 2 * len(y):
            return None
        v = float(1 - rss / tss)
        abs_y = 256 * EPS * (xr + 1.0) * ymax
        return v, 1e-6 * abs(v) + 4 * abs_y * float(np.sqrt(rss * len(y)) + abs_y * len(y)) / float(tss) + 64 * EPS \
            + 64 * (EPS * ymax) ** 2 * len(y) / float(tss)
    raise ValueError(metric)


def farthest_tol(seg, kind):
    """How far below the true maximum the chord distance of the point chosen as 'farthest' may legitimately lie: the forward
    error of a cross-product based distance, 64*eps*max_i(|v0*w1_i| + |v1*w0_i|)/|v| with v the chord and w_i = p_i - p_0
    (differences of the coordinates, so it is translation invariant AND follows the anisotropy of the data: byte-sized x
    against ratios in y leave a noise floor of ~1e-14, not 1e-2).  For the closed-segment distance the bound only applies
    while every interior point projects well inside the chord; otherwise (and for a degenerate chord) the coarser
    64*eps*(largest coordinate difference + chord length) is returned."""
    import numpy as np
    EPS = float(np.finfo(float).eps)
    P = np.asarray(seg, dtype=np.longdouble)
    v = P[-1] - P[0]
    w = P - P[0]
    L = float(np.hypot(v[0], v[1]))
    coarse = max(64 * EPS * (float(np.max(np.abs(w))) + L), EPS)
    if not (L > 0) or len(P) < 3:
        return coarse
    if kind != 'perpendicular':
        t = np.asarray((w[1:-1, 0] * v[0] + w[1:-1, 1] * v[1]) / (v[0] * v[0] + v[1] * v[1]), dtype=float)
        if not (np.all(t > 1e-6) and np.all(t < 1 - 1e-6)):
            return coarse
    fine = 64 * EPS * float(np.max(np.abs(v[0] * w[:, 1]) + np.abs(v[1] * w[:, 0]))) / L
    return max(min(fine, coarse), EPS)
