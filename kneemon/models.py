"""Independent (long double) reference models shared by several property modules.

Used where a property's oracle otherwise re-uses a library primitive (same-primitive rule): the primitive's value is
cross-checked against its definition on well-conditioned data, so that a broken shared primitive is observable in
every property that depends on it, not only in the property that owns the primitive (C16 / C17).
"""
import numpy as np

LD = np.longdouble
EPS = float(np.finfo(float).eps)


def endpoint_line_cost(pt, metric):
    """(value, absolute tolerance) of the end-point-line cost of a segment under `metric`, or None when the float64
    evaluation is ill-conditioned (relative metrics with y touching 0, R2 with a vanishing total sum of squares)."""
    p = np.asarray(pt)
    if p.ndim != 2 or len(p) < 3 or not np.all(np.isfinite(p.astype(float))):
        return None
    x = np.asarray(p[:, 0], dtype=LD)
    y = np.asarray(p[:, 1], dtype=LD)
    if x[0] == x[-1]:
        return None
    gaps = np.diff(np.asarray(p[:, 0], dtype=float))
    if np.min(gaps) <= 0:
        return None
    m = (y[0] - y[-1]) / (x[0] - x[-1])
    b = y[0] - m * x[0]
    yh = x * m + b
    ymax, ymin = float(np.max(np.abs(y))), float(np.min(y))
    if ymax > 1e100 or (ymax == 0 and metric != 'rss'):
        return None
    xr = float(np.max(np.abs(x))) / float(np.min(gaps))          # float64 error of y_hat is ~eps*|m*x| ~ eps*xr*|dy|
    e = LD(1e-16)
    if metric in ('smape', 'rpd', 'rmspe'):
        if not ymin >= 1e-3 * ymax:
            return None
        if metric == 'smape':
            v = np.mean(2 * np.abs(yh - y) / (np.abs(y) + np.abs(yh) + e))
        elif metric == 'rpd':
            v = np.mean(np.abs((y - yh) / (np.maximum(y, yh) + e)))
        else:
            v = np.sqrt(np.mean(((y - yh) / (y + e)) ** 2))
        v = float(v)
        return v, 1e-6 * abs(v) + 256 * EPS * xr * (ymax / ymin)
    if metric == 'rmsle':
        if ymin < 0 or float(np.min(yh)) <= -1:
            return None
        # the float64 line m*x + b carries an absolute error of about eps*|m*x|; where that is not small against
        # y_hat + 1 the logarithm is ill-conditioned (the float evaluation may even leave its domain): no verdict
        if 256 * EPS * (xr + 1.0) * ymax > 1e-3 * (float(np.min(yh)) + 1.0):
            return None
        v = float(np.sqrt(np.mean((np.log(y + 1) - np.log(yh + 1)) ** 2)))
        return v, 1e-6 * abs(v) + 256 * EPS * (xr + 1.0) * ymax + 64 * EPS
    if metric == 'rss':
        rss = float(np.sum((y - yh) ** 2))
        abs_y = 256 * EPS * (xr + 1.0) * ymax
        return rss, 1e-6 * rss + 4 * abs_y * float(np.sqrt(rss * len(y)) + abs_y * len(y))
    if metric == 'r2':
        rss = np.sum((y - yh) ** 2)
        tss = np.sum((y - np.mean(y)) ** 2)
        # two-pass TSS in float64 carries an absolute error ~(eps*|y|max)^2*n: demand it to be 1e6 times smaller than TSS
        if not float(tss) > 1e6 * (EPS * ymax) ** 2 * len(y):
            return None
        v = float(1 - rss / tss)
        abs_y = 256 * EPS * (xr + 1.0) * ymax
        return v, 1e-6 * abs(v) + 4 * abs_y * float(np.sqrt(rss * len(y)) + abs_y * len(y)) / float(tss) + 64 * EPS \
            + 64 * (EPS * ymax) ** 2 * len(y) / float(tss)
    raise ValueError(metric)
