"""Shared helpers for property modules: enum lookup, configuration sampling."""
import numpy as np

DISTANCES = ['shortest', 'perpendicular']
COSTS = ['smape', 'rpd', 'rmspe', 'rmsle', 'r2']
ORDERS = ['segment', 'triangle', 'area']
LINKAGES = ['single_linkage', 'complete_linkage', 'centroid_linkage', 'average_linkage']
RANKINGS = ['left', 'linear', 'right', 'hull']
EPS = float(np.finfo(float).eps)


def distance(mods, name):
    return mods['rdp'].Distance(name)


def cost(mods, name):
    return mods['metrics'].Metrics(name)


def order(mods, name):
    return mods['rdp'].Order(name)


def pick(rng, seq):
    return seq[int(rng.integers(0, len(seq)))]


def accept(costname, value, t):
    """The accepting side of a threshold: cost < t, or R2 >= t."""
    return value >= t if costname == 'r2' else value < t


def shard_count(total, shard, nshards):
    """Deterministic split of `total` cases over shards."""
    base, extra = divmod(total, nshards)
    return base + (1 if shard < extra else 0)
