"""C13 - worst-knee and corner filters implement exactly their selection rules (DESIGN.md section 4, C13).

Postcondition monitors on postprocessing.filter_worst_knees / filter_corner_knees /
select_corner_knees (module attributes, so internal calls from zmethod.knees2 and
add_points_even* are seen too).

Oracles
* worst-knee filter: the greedy running-minimum subsequence (first knee, then every knee
  whose height is <= the lowest kept so far).  Only input values are compared (no
  arithmetic), so the comparison is exact on every curve.  Idempotence is checked by
  calling the saved original on its own result.
* corner filter / selector: the intersection-over-union of the rectangles
  (p0.x, p2.y)-p1 and p0-p2 is recomputed here in exact rational arithmetic
  (fractions) straight from the three points, never through knee_ranking.rect /
  rect_overlap.  Decision rule (DESIGN section 3, exact-arithmetic rule):
    - exact class (all six coordinates are multiples of 2^-10 below 2^14: every
      product / sum of the IoU is exact in binary64 whatever the evaluation order,
      the only rounding is the final, correctly rounded division): the decision must
      be  float(q) < t  resp.  float(q) >= t  exactly - ties included;
    - elsewhere: |q - t| <= 1e-12 * |t| is accepted either way, otherwise q < t / q >= t.
  Knees without two neighbours are kept by the filter and never selected.  The two
  outputs must partition the knee list, both are idempotent and order preserving.
"""
from fractions import Fraction

import numpy as np

from .. import gen, install
from ..common import pick, shard_count
from ..ctx import HarnessError, LoopBoundExceeded

BAND = 1e-12

META = {
    'refill': True,      # cases presented in a reused buffer are followed by a refill of that buffer (runner)
    'rule': ('cases = (a) dyadic/integer curves (n 3..40; small-integer, plateau, dyadic k/8, corner-shaped and '
             'near-vertical y profiles over integer / dyadic x gaps) and (b) the 12 generic curve families '
             '(n 2..60; thorough adds n 80..600), each x {C,F,view,int64} layout x an ascending numpy int knee list '
             'drawn from 0..n-1 (index 0 and n-1 forced in ~35 % each; empty, single and all-index lists included) '
             'x 4 thresholds in [0,1] (a realised IoU value, its float neighbour or U(0,1), one of '
             '{0,1,.33,.5,.3,.0625}, U(0,1)^2); every case drives '
             'filter_worst_knees once and filter_corner_knees + select_corner_knees per threshold, 20 % also '
             'add_points_even_knees (internal call path); distinct = digest(curve, knees, function, t); '
             'non-trivial = the call dropped >= 1 knee and kept >= 1 knee'),
    'require': {'worst:rule': 4000, 'worst:idempotent': 4000,
                'corner:rule': 13000, 'select:rule': 13000, 'corner:order': 13000, 'select:order': 13000,
                'corner:partition': 26000, 'corner:idempotent': 13000, 'select:idempotent': 13000,
                'tie-exact': 12000, 'tie-exact-pos': 4000, 'worst-tie': 1500, 'end-knee': 30000,
                'nontrivial': 14000},
    'scale': {'quick': 1, 'thorough': 20},
    'quick_cases': 10000, 'thorough_cases': 220000,
    'assumptions': ['IoU ties (< versus >=) are asserted only on curves whose coordinates are multiples of 2^-10 '
                    'below 2^14 (all IoU intermediates exact in binary64); elsewhere a decision within a relative '
                    'band 1e-12 of t is accepted either way',
                    'the empty knee list is in the domain (ascending trivially); knee lists that are not strictly '
                    'ascending in-range integers and thresholds outside [0,1] are out-of-domain'],
}


# ------------------------------------------------------------------ independent models

def _fr(v):
    """Exact rational value of one coordinate (python / numpy int or float)."""
    if hasattr(v, 'item'):
        v = v.item()
    return Fraction(v)


def iou_exact(p0, p1, p2):
    """Exact IoU of rectangle A = (p0.x, p2.y)-p1 and rectangle B = p0-p2; also the exact intersection area."""
    x0, y0 = _fr(p0[0]), _fr(p0[1])
    x1, y1 = _fr(p1[0]), _fr(p1[1])
    x2, y2 = _fr(p2[0]), _fr(p2[1])
    ax_lo, ax_hi = min(x0, x1), max(x0, x1)
    ay_lo, ay_hi = min(y2, y1), max(y2, y1)
    bx_lo, bx_hi = min(x0, x2), max(x0, x2)
    by_lo, by_hi = min(y0, y2), max(y0, y2)
    w = min(ax_hi, bx_hi) - max(ax_lo, bx_lo)
    h = min(ay_hi, by_hi) - max(ay_lo, by_lo)
    if w <= 0 or h <= 0:
        return Fraction(0), Fraction(0)
    inter = w * h
    union = (ax_hi - ax_lo) * (ay_hi - ay_lo) + (bx_hi - bx_lo) * (by_hi - by_lo) - inter
    return inter / union, inter


def _dyadic_small(tri):
    """All coordinates are multiples of 2^-10 with magnitude < 2^14: every IoU intermediate is exact."""
    a = np.asarray(tri, dtype=float).ravel()
    s = a * 1024.0
    return bool(np.all(np.abs(a) < 16384.0) and np.all(s == np.round(s)))


def corner_status(P, k, t):
    """Decision of the corner rule for knee k: (filter-status, info) with status in yes / no / either.

    The selector status is the complement for interior knees and 'no' for end knees.
    info = (class, q_float) with class in end / exact / exact-tie / band / plain / extreme.
    """
    n = len(P)
    if not (k - 1 >= 0 and k + 1 < n):
        return 'yes', ('end', None)
    tri = P[k - 1:k + 2]
    q, inter = iou_exact(tri[0], tri[1], tri[2])
    qf = float(q)          # correctly rounded quotient
    if _dyadic_small(tri):
        cls = 'exact-tie' if qf == t else 'exact'
        return ('yes' if qf < t else 'no'), (cls, qf)
    mag = float(np.max(np.abs(np.asarray(tri, dtype=float))))
    if mag > 1e140 or (inter > 0 and float(inter) < 1e-280):
        return 'either', ('extreme', qf)      # products over/underflow in binary64: no verdict
    tq = Fraction(float(t))
    if abs(q - tq) <= Fraction(BAND) * abs(tq):
        return 'either', ('band', qf)
    return ('yes' if q < tq else 'no'), ('plain', qf)


def greedy_running_minimum(P, K):
    if len(K) == 0:
        return [], 0
    out = [int(K[0])]
    hmin = P[K[0], 1]
    ties = 0
    for k in K[1:]:
        h = P[k, 1]
        if h <= hmin:
            ties += int(h == hmin)
            out.append(int(k))
            hmin = h
    return out, ties


# ------------------------------------------------------------------ helpers of the monitors

def _domain(points, knees):
    """(P, K) when the call satisfies the hypotheses, else a reason string."""
    try:
        P = np.asarray(points)
        K = np.asarray(knees)
    except Exception:
        return 'not-arrays'
    if P.ndim != 2 or P.shape[1] != 2 or len(P) < 1 or P.dtype.kind not in 'fiu':
        return 'points-shape'
    if not np.all(np.isfinite(P)):
        return 'points-nonfinite'
    if K.size == 0:
        return P, np.zeros(0, dtype=int)
    if K.ndim != 1 or K.dtype.kind not in 'iu':
        return 'knees-not-int-vector'
    if K.min() < 0 or K.max() >= len(P):
        return 'knees-out-of-range'
    if not np.all(np.diff(K) > 0):
        return 'knees-not-ascending'
    return P, K.astype(int)


def _indices(result):
    """The returned knee list as python ints, or None when it is not an index vector."""
    try:
        R = np.asarray(result)
        if R.size == 0:
            return []
        if R.ndim != 1:
            return None
        if R.dtype.kind not in 'iu':
            if R.dtype.kind == 'f' and np.all(R == np.round(R)):
                return [int(v) for v in R]
            return None
        return [int(v) for v in R]
    except Exception:
        return None


def _call(original, *a):
    """Library call made by an oracle: (True, value) or (False, 'ExcType: msg')."""
    try:
        return True, original(*a)
    except (HarnessError, LoopBoundExceeded):
        raise
    except Exception as e:
        return False, f'{type(e).__name__}: {e}'


def _unpack(args, kwargs, with_t):
    points = args[0] if len(args) > 0 else kwargs['points']
    knees = args[1] if len(args) > 1 else kwargs['knees']
    if not with_t:
        return points, knees, None
    t = args[2] if len(args) > 2 else kwargs.get('t', .33)
    return points, knees, t


def post_worst(ctx, original, args, kwargs, result):
    points, knees, _ = _unpack(args, kwargs, False)
    dom = _domain(points, knees)
    if isinstance(dom, str):
        ctx.ood('worst:rule', dom)
        return
    P, K = dom
    exp, ties = greedy_running_minimum(P, K)
    got = _indices(result)
    ok = ctx.check(got == exp, 'worst:rule', 'worst:rule',
                   f'filter_worst_knees != greedy running minimum (<=): got {got} expected {exp}',
                   knees=K, heights=P[K, 1] if len(K) else [], got=got, expected=exp)
    if ties:
        ctx.ok('worst-tie')
    ctx.h('worst_kept_dropped', f'kept{min(len(exp), 6)}/dropped{min(len(K) - len(exp), 6)}')
    ctx.h('worst_equal_height_keeps', min(ties, 4))
    if 0 < len(exp) < len(K) and ok:
        ctx.nontriv(P, K, 'worst')
    # idempotence on the function's own output
    fine, again = _call(original, points, result)
    if not fine:
        ctx.violation('worst:idempotent', 'worst:idempotent',
                      f'filter_worst_knees raised on its own output: {again}', knees=K, first=got)
        return
    ctx.check(_indices(again) == got, 'worst:idempotent', 'worst:idempotent',
              f'filter_worst_knees not idempotent: f(K)={got} f(f(K))={_indices(again)}',
              knees=K, heights=P[K, 1] if len(K) else [], first=got, second=_indices(again))


def _post_corner(kind):
    other = 'select_corner_knees' if kind == 'corner' else 'filter_corner_knees'
    fname = 'filter_corner_knees' if kind == 'corner' else 'select_corner_knees'

    def post(ctx, original, args, kwargs, result):
        points, knees, t = _unpack(args, kwargs, True)
        dom = _domain(points, knees)
        if isinstance(dom, str):
            ctx.ood(f'{kind}:rule', dom)
            return
        try:
            tf = float(t)
        except Exception:
            ctx.ood(f'{kind}:rule', 't-not-a-number')
            return
        if not (0.0 <= tf <= 1.0):
            ctx.ood(f'{kind}:rule', 't-outside-[0,1]')
            return
        P, K = dom
        got = _indices(result)
        klist = [int(k) for k in K]

        # ---- order preservation: the output is a subsequence of the knee list
        sub = got is not None
        if sub:
            it = iter(klist)
            sub = all(any(g == k for k in it) for g in got)
        ctx.check(sub, f'{kind}:order', f'{kind}:order',
                  f'{fname} output is not an order-preserving sub-list of the knees: {got} of {klist}',
                  knees=K, t=tf, got=got)
        if not sub:
            return
        gotset = set(got)

        # ---- the rule, knee by knee
        bad = {}
        nties = nend = npos = 0
        for k in klist:
            st, (cls, qf) = corner_status(P, k, tf)
            if cls == 'end':
                nend += 1
                want = 'yes' if kind == 'corner' else 'no'
            elif st == 'either':
                want = 'either'
                ctx.ood(f'{kind}:rule', f'knee-{cls}')
            else:
                want = st if kind == 'corner' else ('no' if st == 'yes' else 'yes')
            if cls == 'exact-tie':
                nties += 1
                npos += int(qf > 0.0)
            ctx.h('decision_class', f'{kind}/{cls}')
            has = k in gotset
            if want != 'either' and has != (want == 'yes'):
                key = {'end': f'{kind}:ends', 'exact-tie': f'{kind}:tie'}.get(cls, f'{kind}:rule')
                bad.setdefault(key, []).append({'knee': k, 'class': cls, 'iou': qf, 't': tf,
                                                'in_output': has, 'required': want,
                                                'p0p1p2': P[k - 1:k + 2] if cls != 'end' else None})
        if bad:
            for key, items in bad.items():
                ctx.violation(f'{kind}:rule', key,
                              f'{fname}: {len(items)} knee(s) decided against the rule; first: {items[0]}',
                              knees=K, t=tf, got=got, wrong=items[:5])
        else:
            ctx.ok(f'{kind}:rule')
        if nties:
            ctx.ok('tie-exact', nties)
        if npos:
            ctx.ok('tie-exact-pos', npos)
        if nend:
            ctx.ok('end-knee', nend)
        ctx.h(f'{kind}_kept_dropped', f'kept{min(len(got), 6)}/dropped{min(len(klist) - len(got), 6)}')
        if 0 < len(got) < len(klist) and not bad:
            ctx.nontriv(P, K, kind, tf)

        # ---- idempotence
        fine, again = _call(original, points, result, t)
        if not fine:
            ctx.violation(f'{kind}:idempotent', f'{kind}:idempotent',
                          f'{fname} raised on its own output: {again}', knees=K, t=tf, first=got)
        else:
            ctx.check(_indices(again) == got, f'{kind}:idempotent', f'{kind}:idempotent',
                      f'{fname} not idempotent: f(K)={got} f(f(K))={_indices(again)}',
                      knees=K, t=tf, first=got, second=_indices(again))

        # ---- partition with the complementary function (saved original)
        fine, comp = _call(install.orig('postprocessing', other), points, knees, t)
        if not fine:
            ctx.violation('corner:partition', 'corner:partition',
                          f'{other} raised on the same input: {comp}', knees=K, t=tf)
            return
        comp = _indices(comp)
        okp = comp is not None and not (gotset & set(comp)) and sorted(got + comp) == klist
        ctx.check(okp, 'corner:partition', 'corner:partition',
                  f'{fname} {got} and {other} {comp} do not partition the knees {klist}',
                  knees=K, t=tf, this=got, other=comp)
    return post


def setup(ctx, mods):
    install.monitor(ctx, 'postprocessing', 'filter_worst_knees', post_worst)
    install.monitor(ctx, 'postprocessing', 'filter_corner_knees', _post_corner('corner'))
    install.monitor(ctx, 'postprocessing', 'select_corner_knees', _post_corner('select'))
    return {}


# ------------------------------------------------------------------ generator

def _dyadic_curve(rng, n):
    """Curves on which every IoU operation is exact; many equal heights, flat and steep neighbours."""
    xp = int(rng.integers(0, 4))
    if xp == 0:
        x = np.arange(n, dtype=float) + float(rng.integers(0, 3))
    elif xp == 1:
        x = np.cumsum(rng.integers(1, 5, n)).astype(float)
    elif xp == 2:
        x = np.cumsum(rng.integers(1, 9, n)) / 4.0
    else:                                   # near-vertical neighbours: gaps 1/64 mixed with gaps of 8
        gaps = np.where(rng.random(n) < 0.4, 1.0 / 64.0, 8.0)
        x = np.cumsum(gaps)
    yp = int(rng.integers(0, 6))
    if yp == 0:                             # small integers: ties, zeros, plateaus
        y = rng.integers(0, int(rng.integers(2, 6)), n).astype(float)
    elif yp == 1:                           # non-increasing integers with plateaus
        y = np.sort(rng.integers(0, int(rng.integers(2, 8)), n))[::-1].astype(float)
    elif yp == 2:                           # dyadic noise
        y = rng.integers(0, 81, n) / 8.0
    elif yp == 3:                           # corner shaped: big drops followed by flats
        steps = np.where(rng.random(n) < 0.3, rng.integers(4, 40, n), 0) / 4.0
        y = np.cumsum(steps[::-1])[::-1].copy()
    elif yp == 4:                           # convex decreasing staircase k^2/8
        k = np.arange(n, 0, -1) // int(rng.integers(1, 4))
        y = (k * k) / 8.0
    else:                                   # rising then falling integers (knees higher than a previous one)
        y = np.abs(np.arange(n) - int(rng.integers(0, n))).astype(float)
        if rng.random() < 0.5:
            y = y.max() - y
    return np.ascontiguousarray(np.column_stack((x, y)).astype(float)), f'dyadic:x{xp}y{yp}'


def _knees(rng, n):
    r = rng.random()
    if r < 0.01:
        return np.zeros(0, dtype=int)
    if r < 0.05:
        return np.arange(n, dtype=int)
    if r < 0.08:
        return np.array([int(rng.integers(0, n))], dtype=int)
    k = int(rng.integers(1, min(n, 12) + 1))
    ks = set(int(v) for v in rng.choice(n, size=k, replace=False))
    if rng.random() < 0.35:
        ks.add(0)
    if rng.random() < 0.35:
        ks.add(n - 1)
    return np.array(sorted(ks), dtype=int)


def _thresholds(rng, pts, knees):
    n = len(pts)
    interior = [int(k) for k in knees if 1 <= k <= n - 2]
    ts = []
    realised = None
    if interior:
        k = interior[int(rng.integers(0, len(interior)))]
        q, _ = iou_exact(pts[k - 1], pts[k], pts[k + 1])
        realised = float(q)
    if realised is not None and 0.0 <= realised <= 1.0:
        ts.append(realised)
        r = rng.random()
        if r < 0.25 and realised < 1.0:
            ts.append(float(np.nextafter(realised, 2.0)))
        elif r < 0.5 and realised > 0.0:
            ts.append(float(np.nextafter(realised, -1.0)))
        else:
            ts.append(float(rng.uniform(0.0, 1.0)))
    else:
        ts.append(float(rng.uniform(0.0, 1.0)))
        ts.append(float(rng.uniform(0.0, 0.2)))
    ts.append(float(pick(rng, [0.0, 1.0, 0.33, 0.5, 0.3, 0.0625])))
    ts.append(float(rng.uniform(0.0, 1.0)) ** 2)
    return ts


def cases(rng, tier, shard, nshards):
    total = META['quick_cases'] if tier == 'quick' else META['thorough_cases']
    count = shard_count(total, shard, nshards)
    # one long curve with hundreds of knees per shard in every tier
    lp, lmeta = gen.curve(rng, nmax=6000, nmin=3000, family=pick(rng, ['mrc', 'noise', 'stairs', 'inv']))
    lk = np.unique(np.concatenate((rng.choice(len(lp), size=int(rng.integers(150, 400)), replace=False), [0, len(lp) - 1]))).astype(int)
    yield {'points': lp, 'family': lmeta['family'] + '+long', 'layout': 'C', 'knees': lk, 'ts': _thresholds(rng, lp, lk),
           'even': False, 'tx': 0.1, 'ty': 0.05}
    for i in range(count):
        r = rng.random()
        if r < 0.5:
            n = int(rng.integers(3, 41)) if rng.random() > 0.1 else int(rng.integers(3, 6))
            pts, fam = _dyadic_curve(rng, n)
        elif tier == 'thorough' and r < 0.53:
            pts, meta = gen.curve(rng, nmax=600, nmin=80)
            fam = meta['family']
        else:
            pts, meta = gen.curve(rng, nmax=60)
            fam = meta['family']
        lay = None
        if rng.random() < 0.04:
            # integral coordinates of magnitude 1e9..1e10 as int64: rectangle areas do not fit int64
            pts, fam, lay = gen.large_int_curve(rng, nmax=40), 'large-int64', 'i64'
        knees = _knees(rng, len(pts))
        if lay is None and r >= 0.5 and rng.random() < 0.12 and len(knees) >= 3:
            # near-ties that are NOT ties: knee heights that differ from each other by a few parts in 1e10 / 1e13
            pts = pts.copy()
            base = float(pts[np.asarray(knees)[0], 1]) or 1.0
            delta = float(pick(rng, [4e-10, 1e-10, 2e-13, 1e-15]))
            steps = np.cumsum(rng.integers(-1, 3, len(knees)))
            pts[np.asarray(knees, dtype=int), 1] = abs(base) * (1.0 + delta * steps)
            fam = fam + '+near-tie-heights'
            if rng.random() < 0.5:
                # ... behind a first knee that towers over them (any comparison made relative to the first knee absorbs
                # the small differences)
                pts[int(np.asarray(knees)[0]), 1] = abs(base) * float(pick(rng, [1e6, 1e9, 1e12]))
                fam = fam + '+towering-first'
        if lay is None and rng.random() < 0.04:
            # heights below zero (log-scaled miss ratios, centred data): the selection rules only compare heights
            pts = pts.copy()
            pts[:, 1] = pts[:, 1] - float(np.max(pts[:, 1])) * float(rng.uniform(0.3, 1.5)) - (1.0 if rng.random() < 0.5 else 0.0)
            fam = str(fam) + '+negative-y'
        yield {'points': pts, 'family': fam, 'layout': lay or gen.pick_layout(rng, pts, 0.6),
               'knees': knees, 'ts': _thresholds(rng, pts, knees),
               'even': bool(rng.random() < 0.2),
               'tx': float(pick(rng, [0.05, 0.1, 0.2])), 'ty': float(pick(rng, [0.0, 0.05]))}


# ------------------------------------------------------------------ driver

def run_case(ctx, mods, case):
    pp = mods['postprocessing']
    pts = gen.present(case['points'], case['layout'])
    K = np.asarray(case['knees'], dtype=int)
    fam = str(case['family']).split(':')[0]
    ctx.h('family_x_layout', f"{fam}/{case['layout']}")
    ctx.h('knee_list', 'empty' if len(K) == 0 else
          ('ends' if (K[0] == 0 or K[-1] == len(pts) - 1) else 'interior'))

    ok, w = install.guarded(ctx, 'complete:postprocessing.filter_worst_knees', pp.filter_worst_knees, pts, K)
    if ok:
        ctx.ok('complete')
    outs = {}
    for t in case['ts']:
        ok1, f = install.guarded(ctx, 'complete:postprocessing.filter_corner_knees',
                                 pp.filter_corner_knees, pts, K, t)
        ok2, s = install.guarded(ctx, 'complete:postprocessing.select_corner_knees',
                                 pp.select_corner_knees, pts, K, t)
        if ok1 and ok2:
            ctx.ok('complete', 2)
            outs[t] = (f, s)
    if ok and outs and len(K) >= 3:
        t0 = case['ts'][0]
        if t0 in outs and 0 < len(outs[t0][0]) < len(K):
            ctx.sample({'family': case['family'], 'layout': case['layout'], 'n': len(pts),
                        'points_head': case['points'][:8], 'knees': K, 'worst_filter': w,
                        't': t0, 'corner_filter': outs[t0][0], 'corner_select': outs[t0][1]})
    # internal call path: add_points_even_knees ends in filter_worst_knees (its own defects are C14's matter)
    if case.get('even') and len(K) >= 1:
        try:
            pp.add_points_even_knees(pts, K, case['tx'], case['ty'], False)
            ctx.h('internal_call', 'add_points_even_knees:returned')
        except (HarnessError, LoopBoundExceeded):
            raise
        except Exception as e:
            ctx.h('internal_call', f'add_points_even_knees:{type(e).__name__}')
