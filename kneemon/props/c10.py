"""C10 - Z-method knees are valid, height-ordered and mutually separated (DESIGN.md section 4, C10).

Postcondition monitors on ``zmethod.knees`` (index result) and ``zmethod.getPoints``
(x-value result, mapped back to indices by exact match).  The separation
thresholds are recomputed with the very float expressions of the code
(``max(1, int(x_max*dx))``, ``(y_max - y_min)*dy``) on the same argument
objects, and the pair test is the code's own ``abs(a - b) >= threshold`` on the
same float64 values, so every comparison is exact (same-primitive rule).
Termination is decided by the loop monitor (``zmethod.getPoints#0``).
"""
import inspect

import numpy as np

from .. import gen, install, loops
from ..common import pick, shard_count
from ..ctx import LoopBoundExceeded

META = {
    'refill': True,      # cases presented in a reused buffer are followed by a refill of that buffer (runner)
    'rule': ('cases = miss-ratio-like curves (x = 1..n or cumulative integer gaps 1..19, optionally from 0; '
             'y in [0,1] from 9 classes: sorted-decreasing uniform, the same rounded to 1 decimal, non-monotone '
             'uniform, k-level staircases, noisy 1/x, cumulative-exponential MRC, constant < 1, all-ones, '
             'two-level 0/1) x {C,F,view,int64} layouts x (dx,dy,dz) = 10^U(-2.3,0) x optional x_max / '
             'y_range=[1,0] overrides (p = 0.3 each), driven through zmethod.knees (which calls getPoints); '
             'distinct = digest(curve, dx, dy, dz, x_max, y_range); non-trivial = at least 2 knees returned'),
    'require': {'post:zmethod.knees': 3300, 'post:zmethod.getPoints': 3300, 'zsep:pairs': 100000,
                'loopmon:zmethod.getPoints#0': 3000, 'nontrivial': 2500},
    'scale': {'quick': 1, 'thorough': 20},
    'quick_cases': 10000, 'thorough_cases': 200000,
    'assumptions': ['termination is decided as bounded progress per execution: the while loop of getPoints '
                    'may take at most 2*(ceil((3 - min z)/dz) + n) + 8 iterations, and every round that selects '
                    'an outlier must remove at least one row from the point table (the variant behind that bound)',
                    'x is integer-valued (getPoints keys its result by int(x)); curves with non-integer x, '
                    'y outside [0,1], n < 4 or non-positive dx/dy/dz are out of domain',
                    'a falsy x_max / y_range is the documented "not given" value'],
}

YCLASSES = ['sorted', 'round1', 'uniform', 'stairs', 'inv', 'mrc', 'const', 'ones', 'twolevel']
YWEIGHTS = [0.20, 0.12, 0.14, 0.12, 0.10, 0.14, 0.08, 0.04, 0.06]


# ---------------------------------------------------------------------------- oracle

def _bind(original, args, kwargs):
    ba = inspect.signature(original).bind(*args, **kwargs)
    ba.apply_defaults()
    return ba.arguments


def _domain(points, dx, dy, dz):
    """None when the call satisfies the hypotheses of C10, else the reason."""
    try:
        p = np.asarray(points)
    except Exception:
        return 'not-an-array'
    if p.ndim != 2 or p.shape[1] != 2:
        return 'shape'
    if len(p) < 4:
        return 'n<4'
    if not (np.issubdtype(p.dtype, np.floating) or np.issubdtype(p.dtype, np.integer)):
        return 'dtype'
    pf = p.astype(float)
    if not np.all(np.isfinite(pf)):
        return 'nonfinite'
    x, y = pf[:, 0], pf[:, 1]
    if not (np.all(x == np.round(x)) and x[0] >= 0 and np.all(np.diff(x) > 0) and x[-1] < 2.0 ** 52):
        return 'x-not-increasing-nonneg-int'
    if not (y.min() >= 0.0 and y.max() <= 1.0):
        return 'y-outside-[0,1]'
    for v in (dx, dy, dz):
        try:
            if not (0.0 < float(v) <= 1.0):
                return 'dxdydz-outside-(0,1]'
        except Exception:
            return 'dxdydz-type'
    return None


def _thresholds(points, dx, dy, x_max, y_range):
    """The identical expressions of getPoints, on the same argument objects."""
    x_max = x_max if x_max else len(points)
    if y_range:
        y_max, y_min = y_range
    else:
        y_max, y_min = (points[:, 1].max(), points[:, 1].min())
    x_width = max(1, int(x_max * dx))
    y_height = (y_max - y_min) * dy
    return x_width, y_height


def check_result(ctx, fn, a, idx, raw):
    """idx: candidate index vector (already validated as integers in [0,n) and increasing)."""
    points = a['points']
    n = len(points)
    # the code stacks the points into a float64 table and compares those float64 values
    tab = np.column_stack((points, np.zeros(n)))
    x = tab[:, 0]
    y = tab[:, 1]
    x_width, y_height = _thresholds(points, a['dx'], a['dy'], a['x_max'], a['y_range'])
    cfg = {'dx': a['dx'], 'dy': a['dy'], 'dz': a['dz'], 'x_max': a['x_max'], 'y_range': a['y_range']}
    k = len(idx)

    # heights non-increasing from left to right
    h = y[idx]
    bad = [int(j) for j in range(1, k) if h[j] > h[j - 1]]
    if bad:
        j = bad[0]
        ctx.violation('zheight', f'zheight:zmethod.{fn}',
                      f'{fn}: height rises from knee {int(idx[j - 1])} (y={float(h[j - 1])!r}) to knee '
                      f'{int(idx[j])} (y={float(h[j])!r})', function=fn, result=raw, config=cfg)
    else:
        ctx.ok('zheight')

    # pairwise separation, with the code's own comparisons
    xbad, ybad, pairs = None, None, 0
    for p in range(k):
        for q in range(p + 1, k):
            pairs += 1
            if xbad is None and not (abs(x[idx[p]] - x[idx[q]]) >= x_width):
                xbad = (int(idx[p]), int(idx[q]))
            if ybad is None and not (abs(y[idx[p]] - y[idx[q]]) >= y_height):
                ybad = (int(idx[p]), int(idx[q]))
    if pairs:
        ctx.ok('zsep:pairs', pairs)
    if xbad is not None:
        p, q = xbad
        ctx.violation('zsep:x', f'zsep:x:zmethod.{fn}',
                      f'{fn}: knees {p} and {q} are {float(abs(x[p] - x[q]))!r} apart in x, '
                      f'required >= x_width = {x_width}', function=fn, result=raw, config=cfg,
                      x_width=x_width, y_height=float(y_height), xa=float(x[p]), xb=float(x[q]))
    else:
        ctx.ok('zsep:x')
    if ybad is not None:
        p, q = ybad
        ctx.violation('zsep:y', f'zsep:y:zmethod.{fn}',
                      f'{fn}: knees {p} and {q} are {float(abs(y[p] - y[q]))!r} apart in y, '
                      f'required >= y_height = {float(y_height)!r}', function=fn, result=raw, config=cfg,
                      x_width=x_width, y_height=float(y_height), ya=float(y[p]), yb=float(y[q]))
    else:
        ctx.ok('zsep:y')
    return k, x_width, float(y_height)


def post_knees(ctx, original, args, kwargs, result):
    a = _bind(original, args, kwargs)
    why = _domain(a['points'], a['dx'], a['dy'], a['dz'])
    if why is not None:
        ctx.ood('post:zmethod.knees', why)
        return
    n = len(a['points'])
    ok = (isinstance(result, np.ndarray) and result.ndim == 1
          and np.issubdtype(result.dtype, np.integer))
    if ok and result.size:
        ok = bool(result.min() >= 0 and result.max() < n and np.all(np.diff(result) > 0))
    if not ok:
        ctx.violation('zindex', 'zindex:zmethod.knees',
                      f'knees: result is not a strictly increasing integer index array within [0,{n}): '
                      f'{result!r}'[:400], function='knees', result=result,
                      config={k: a[k] for k in ('dx', 'dy', 'dz', 'x_max', 'y_range')})
        ctx.ok('post:zmethod.knees')
        return
    ctx.ok('zindex')
    k, xw, yh = check_result(ctx, 'knees', a, result, result)
    ctx.ok('post:zmethod.knees')
    ctx.h('knees_returned', k if k < 8 else '8+')
    ctx.h('x_width', xw if xw < 4 else ('4-9' if xw < 10 else '10+'))
    ctx.h('y_height_zero', yh == 0.0)


def post_getpoints(ctx, original, args, kwargs, result):
    a = _bind(original, args, kwargs)
    why = _domain(a['points'], a['dx'], a['dy'], a['dz'])
    if why is None and a['plot']:
        why = 'plot=True'
    if why is not None:
        ctx.ood('post:zmethod.getPoints', why)
        return
    points = a['points']
    n = len(points)
    cfg = {k: a[k] for k in ('dx', 'dy', 'dz', 'x_max', 'y_range')}
    # the result is a sorted sequence of x values of the curve (a plain [] on the early returns)
    idx, ok, why = None, True, ''
    try:
        vals = np.asarray(result)
        if vals.ndim != 1:
            ok, why = False, f'result is not one-dimensional: {result!r}'
        elif vals.size and not (np.issubdtype(vals.dtype, np.integer) or np.issubdtype(vals.dtype, np.floating)):
            ok, why = False, f'result is not numeric: {result!r}'
        else:
            where = {float(v): i for i, v in enumerate(np.asarray(points)[:, 0].astype(float))}
            idx = []
            for v in vals.tolist():
                if float(v) not in where:
                    ok, why = False, f'returned x value {v!r} is not an x of the curve'
                    break
                idx.append(where[float(v)])
            if ok and any(idx[j] >= idx[j + 1] for j in range(len(idx) - 1)):
                ok, why = False, f'returned x values are not strictly increasing: {vals.tolist()[:40]}'
    except Exception as e:
        ok, why = False, f'result is not a sequence of x values: {e!r}'
    if not ok:
        ctx.violation('zindex', 'zindex:zmethod.getPoints', 'getPoints: ' + why[:400],
                      function='getPoints', result=result, config=cfg)
        ctx.ok('post:zmethod.getPoints')
        return
    ctx.ok('zindex')
    check_result(ctx, 'getPoints', a, np.array(idx, dtype=int), result)
    ctx.ok('post:zmethod.getPoints')


_STATE = {}
LOOPKEY = 'zmethod.getPoints#0'


def progress_hook(self, key, frame, loc, count):
    """Variant behind the step bound: a round that selects an outlier shrinks the point table.

    The first outlier selected in a round is a row of the current table and lies inside its own
    x band (x_width >= 1), so the band filter removes at least that row.  Rounds that select
    nothing are bounded by the z ladder, rounds that select something by n - provided this holds.
    Read at the first body line of the loop, i.e. once per round.
    """
    try:
        cur = (len(loc['outlier_points']), len(loc['points']))
    except Exception:
        return
    per = self.counts[id(frame)]
    prev = per.get(key + ':progress')
    per[key + ':progress'] = cur
    if prev is not None and cur[0] > prev[0] and not cur[1] < prev[1]:
        raise LoopBoundExceeded(key, count, self.bounds[key](loc),
                                info=f'a round selected {cur[0] - prev[0]} outlier(s) without removing any '
                                     f'point from the table ({prev[1]} -> {cur[1]} rows)')


def setup(ctx, mods):
    install.monitor(ctx, 'zmethod', 'knees', post_knees)
    install.monitor(ctx, 'zmethod', 'getPoints', post_getpoints)
    lm = loops.standard(ctx, mods)
    if LOOPKEY in lm.bounds:
        lm.hooks[LOOPKEY] = progress_hook
    _STATE['loops'] = lm
    return {'loops': lm}


def finish(ctx, mods):
    # the termination clause is only decided if the loop monitor really saw the loop
    lm = _STATE.get('loops')
    if lm is not None:
        n = lm.activations.get(LOOPKEY, 0)
        if n:
            ctx.ok('loopmon:zmethod.getPoints#0', n)


# ------------------------------------------------------------------------- generator

def _xs(rng, n):
    pat = int(rng.integers(0, 5))
    if pat == 4 and rng.random() < 0.3:
        # sizes in bytes on a large base (up to ~1e15, exactly representable) with small steps: neighbouring sizes differ by
        # parts in 1e12..1e15
        x = float(int(10.0 ** rng.uniform(12, 15))) + np.cumsum(rng.integers(1, 9, n)).astype(float)
        return x, 5
    if pat == 4:
        # large cache sizes (bytes / blocks): integers far above 2**24, still exactly representable
        unit = float(2 ** int(rng.integers(8, 25))) if rng.random() < 0.6 else float(int(10.0 ** rng.uniform(2, 7)))
        x = np.cumsum(rng.integers(1, 20, n)).astype(float) * unit
        if rng.random() < 0.5:
            x = x + float(2 ** int(rng.integers(24, 34)))
        return x, pat
    if pat == 0:
        x = np.arange(1, n + 1, dtype=float)
    elif pat == 1:
        x = np.arange(0, n, dtype=float)
    else:
        hi = [3, 20][pat - 2] if rng.random() < 0.7 else 20
        x = np.cumsum(rng.integers(1, hi, n)).astype(float)
        if rng.random() < 0.3:
            x = x - x[0]
    return x, pat


def _ys(rng, n, x, cls):
    if cls == 'sorted':
        y = np.sort(rng.random(n))[::-1].copy()
    elif cls == 'round1':
        y = np.round(np.sort(rng.random(n))[::-1], 1)
    elif cls == 'uniform':
        y = rng.random(n)
    elif cls == 'stairs':
        k = int(rng.integers(2, 6))
        levels = np.sort(rng.random(k))[::-1]
        if rng.random() < 0.3:
            levels = np.round(levels, 1)
        cuts = np.sort(rng.integers(0, n, k - 1))
        y = levels[np.searchsorted(cuts, np.arange(n), side='right')]
    elif cls == 'inv':
        y = 1.0 / (x - x[0] + 1.0) ** rng.uniform(0.3, 2.0)
        y = y + rng.normal(0.0, rng.uniform(0.0, 0.05), n)
    elif cls == 'mrc':
        steps = rng.exponential(1.0, n) * (rng.random(n) < rng.uniform(0.15, 1.0))
        y = np.cumsum(steps[::-1])[::-1]
        y = y / (y.max() if y.max() > 0 else 1.0)
        if rng.random() < 0.4:
            y = y * rng.uniform(0.2, 0.9) + rng.uniform(0.0, 0.1)
    elif cls == 'const':
        c = [0.0, 0.5, 0.3, 0.25, float(rng.random())][int(rng.integers(0, 5))]
        y = np.full(n, c)
    elif cls == 'ones':
        y = np.ones(n)
    elif cls == 'twolevel':
        y = np.where(np.arange(n) < int(rng.integers(1, n)), 1.0, 0.0)
        if rng.random() < 0.3:
            y = y[rng.permutation(n)]
    else:
        raise ValueError(cls)
    return np.clip(np.asarray(y, dtype=float), 0.0, 1.0)


def make_case(rng, nmin, nmax):
    if rng.random() < 0.15:
        n = int(rng.integers(4, 9))
    else:
        n = int(rng.integers(nmin, nmax + 1))
    cls = YCLASSES[int(rng.choice(len(YCLASSES), p=YWEIGHTS))]
    x, pat = _xs(rng, n)
    y = _ys(rng, n, x, cls)
    pts = np.ascontiguousarray(np.column_stack((x, y)))
    dx, dy, dz = (float(10.0 ** rng.uniform(-2.3, 0.0)) for _ in range(3))
    if rng.random() < 0.3:
        # round parameter values: band widths that coincide with the spacing of y values on a decimal grid
        grid = [0.05, 0.1, 0.2, 0.25, 0.5]
        dx, dy, dz = (float(grid[int(rng.integers(0, 5))]) if rng.random() < 0.7 else v for v in (dx, dy, dz))
    if n <= 30 and rng.random() < 0.03:
        # very fine z steps (thousands of rounds of the selection loop): the threshold must still move every round
        dz = float(pick(rng, [0.0004, 0.0005, 0.001, 0.0002]))
    if rng.random() < 0.06:
        # the top of the documented (0, 1] domain: a band as wide as the whole axis / the whole y range
        if rng.random() < 0.5:
            dx = 1.0
        else:
            dy = 1.0
    x_max = None
    if rng.random() < 0.3:
        hi = int(4 * x[-1]) + 2
        x_max = int(rng.integers(1, hi)) if rng.random() < 0.7 else int(rng.integers(1, n + 1))
    y_range = [1, 0] if rng.random() < 0.3 else None
    return {'points': pts, 'yclass': cls, 'xpat': pat, 'layout': gen.pick_layout(rng, pts),
            'dx': dx, 'dy': dy, 'dz': dz, 'x_max': x_max, 'y_range': y_range}


def cases(rng, tier, shard, nshards):
    total = META['quick_cases'] if tier == 'quick' else META['thorough_cases']
    count = shard_count(total, shard, nshards)
    for _ in range(count):
        r = rng.random()
        if tier == 'thorough' and r < 0.02:
            yield make_case(rng, 200, 800)
        elif tier == 'thorough' and r < 0.12:
            yield make_case(rng, 80, 200)
        else:
            yield make_case(rng, 4, 80)


def run_case(ctx, mods, case):
    zm = mods['zmethod']
    pts = gen.present(case['points'], case['layout'])
    kw = {}
    if case.get('x_max') is not None:
        kw['x_max'] = int(case['x_max'])
    if case.get('y_range') is not None:
        kw['y_range'] = [int(v) if float(v) == int(v) else float(v) for v in case['y_range']]
    dx, dy, dz = float(case['dx']), float(case['dy']), float(case['dz'])
    ok, res = install.guarded(ctx, 'complete:zmethod.knees', zm.knees, pts, dx, dy, dz, **kw)
    if not ok:
        return
    ctx.ok('complete')
    ctx.h('yclass', case['yclass'])
    ctx.h('layout', case['layout'])
    ctx.h('overrides', f"x_max={'y' if 'x_max' in kw else 'n'},y_range={'y' if 'y_range' in kw else 'n'}")
    try:
        k = len(res)
    except Exception:
        return
    ctx.h('knees_x_class', f"{case['yclass']}/{k if k < 3 else '3+'}")
    if k >= 2:
        ctx.nontriv(case['points'], dx, dy, dz, case.get('x_max'), case.get('y_range'))
        ctx.sample({'yclass': case['yclass'], 'n': len(pts), 'dx': dx, 'dy': dy, 'dz': dz,
                    'x_max': case.get('x_max'), 'y_range': case.get('y_range'),
                    'points_head': case['points'][:8], 'knees': res,
                    'knee_x': case['points'][res, 0], 'knee_y': case['points'][res, 1]})
