"""C11 - 1-D linkage clustering follows its stated threshold rule (DESIGN.md section 4, C11).

Postcondition monitors on the four linkages of ``clustering``.  Every step /
no-step decision of a returned labelling is checked against the run that the
*implementation's own labels* delimit (the oracle never propagates a decision
of its own, so an ambiguous tie cannot cascade).

* single / complete: the oracle replays the identical IEEE expression
  ``math.fabs(x_i - x_a)/length >= t`` on the same array scalars -> exact,
  ties included (same-primitive rule).
* centroid / average: exact rational distance D (``fractions``) of x_i to the
  true centroid of the run (= mean distance to its members, x being sorted)
  divided by the true range.  Outside a band around t the decision must be
  ``D >= t``.  Inside the band it is asserted only where every floating-point
  operation of the implementation is exact or a single correctly rounded
  division of exact operands (grid data; centroid: runs of <= 2 members) and
  the rounded and the rational comparison agree; otherwise either decision is
  accepted (exact-arithmetic rule).
* single / complete: cluster counts over an ascending ladder of <= 12
  thresholds are non-increasing.
"""
import inspect
import math
from fractions import Fraction

import numpy as np

from .. import gen, install, loops
from ..common import EPS, LINKAGES, shard_count

META = {
    'refill': True,      # cases presented in a reused buffer are followed by a refill of that buffer (runner)
    'rule': ('cases = one long input per shard 0-3 (16500..40000 points, large gaps on / next to multiples of 4096) + x layouts (integer gaps 1..8; the same with the range forced to a power of two; long '
             'unit/near-unit gap runs; dyadic 1/4-grid gaps; random float gaps; each with a random integer or '
             'float offset) x {C,F,view,int64} layouts x 4 linkages x 7 thresholds drawn from {2^-k}, realised '
             'ratios fl(span/length) (exact ties), realised centroid ratios of 2- and 4-member runs, '
             'long-run thresholds and 10^U(-3,0), plus a 12-step ascending threshold ladder (every realised gap '
             'ratio included) for single/complete; distinct = digest(x, linkage, t); non-trivial = at least 2 '
             'clusters and at least one cluster with 2 or more members'),
    'require': {'labels': 40000, 'decision': 1300000, 'monotone': 1600, 'nontrivial': 14000,
                # exact-tie decisions per linkage (DESIGN: at least 50 each, else inconclusive)
                'tie:single_linkage': 25000, 'tie:complete_linkage': 35000,
                'tie:centroid_linkage': 4000, 'tie:average_linkage': 5000,
                'longrun:centroid_linkage': 600, 'longrun:average_linkage': 600},
    'scale': {'quick': 1, 'thorough': 20},
    'quick_cases': 2400, 'thorough_cases': 48000,
    'assumptions': ['x strictly increasing and finite, n >= 2, t > 0 finite; other calls are out of domain',
                    'centroid/average decisions whose exact distance lies within 1e-12*t + '
                    '16*eps*(members+1)*max|x|/range of t are accepted either way unless the implementation\'s '
                    'arithmetic is provably exact there (grid data; centroid only for runs of <= 2 members)',
                    'single/complete ties are decided on the identical IEEE expression fabs(x_i - x_a)/length'],
}

GRID = 256            # "grid data": every x is a multiple of 1/GRID ...
GRID_MAX = 2.0 ** 30  # ... and small enough that all sums / products of the linkages are exact


# ---------------------------------------------------------------------------- oracle

def _bind(original, args, kwargs):
    ba = inspect.signature(original).bind(*args, **kwargs)
    ba.apply_defaults()
    return ba.arguments


def _domain(points, t):
    try:
        p = np.asarray(points)
    except Exception:
        return 'not-an-array'
    if p.ndim != 2 or p.shape[1] < 1 or len(p) < 2:
        return 'shape'
    if not (np.issubdtype(p.dtype, np.floating) or np.issubdtype(p.dtype, np.integer)):
        return 'dtype'
    x = p[:, 0].astype(float)
    if not np.all(np.isfinite(x)) or not np.all(np.diff(x) > 0):
        return 'x-not-strictly-increasing'
    if np.abs(x).max() > 1e150:
        return 'magnitude'
    try:
        if not (float(t) > 0.0 and math.isfinite(float(t))):
            return 't<=0'
    except Exception:
        return 't-type'
    return None


def labels_ok(ctx, name, n, result, t):
    why = ''
    if not isinstance(result, np.ndarray) or result.ndim != 1:
        why = f'result is not a one-dimensional array: {result!r}'[:300]
    elif len(result) != n:
        why = f'{len(result)} labels for {n} points'
    elif not np.issubdtype(result.dtype, np.integer):
        why = f'labels are not integers (dtype {result.dtype})'
    elif result[0] != 0:
        why = f'first label is {result[0]}, not 0'
    else:
        d = np.diff(result)
        if not np.all((d == 0) | (d == 1)):
            j = int(np.argmax(~((d == 0) | (d == 1))))
            why = f'label step {int(d[j])} at point {j + 1} (labels must step by 0 or 1)'
    if why:
        ctx.violation('labels', f'labels:{name}', f'{name}: {why}', linkage=name, t=t, result=result)
        return False
    ctx.ok('labels')
    return True


def check_decisions(ctx, name, points, t, lab):
    """One verdict per call (first disagreeing decision is the witness); returns stats."""
    n = len(points)
    length = points[-1, 0] - points[0, 0]
    exact_ieee = name in ('single_linkage', 'complete_linkage')
    if not exact_ieee:
        xf = np.asarray(points)[:, 0]
        X = [Fraction(v.item()) for v in xf]
        L = X[-1] - X[0]
        P = [Fraction(0)]
        for v in X:
            P.append(P[-1] + v)
        tF = Fraction(float(t))
        xa = float(np.abs(xf.astype(float)).max())
        xg = xf.astype(float) * GRID
        grid = bool(np.all(xg == np.round(xg)) and xa < GRID_MAX)
        floor_unit = 16.0 * EPS * xa / float(L)
        band0 = 1e-12 * float(t)
    a = 0
    asserted = ties = accepted = ambiguous = 0
    longest = 1
    bad = None
    for i in range(1, n):
        step = bool(lab[i] != lab[i - 1])
        m = i - a
        if exact_ieee:
            ref = i - 1 if name == 'single_linkage' else a
            d = math.fabs(points[i][0] - points[ref][0]) / length
            expected = bool(d >= t)
            tie = bool(d == t)
            asserted += 1
            if step != expected and bad is None:
                bad = (i, a, m, tie, expected, step, float(d), 'identical IEEE expression')
            elif tie and step == expected:
                ties += 1
        else:
            D = (X[i] - (P[i] - P[a]) / m) / L
            band = Fraction(band0 + floor_unit * (m + 1))
            if abs(D - tF) > band:
                expected = bool(D >= tF)
                asserted += 1
                if step != expected and bad is None:
                    bad = (i, a, m, False, expected, step, float(D), 'exact rational distance')
            else:
                fd = float(D)       # correctly rounded
                exact_ctx = grid and (name == 'average_linkage' or m <= 2)
                if exact_ctx and bool(fd >= t) == bool(D >= tF):
                    expected = bool(fd >= t)
                    tie = bool(fd == t)
                    asserted += 1
                    if step != expected and bad is None:
                        bad = (i, a, m, tie, expected, step, fd,
                               'exact arithmetic: the implementation computes the correctly rounded D')
                    elif tie and step == expected:
                        ties += 1
                else:
                    accepted += 1
                    ambiguous += 1 if exact_ctx else 0
        if step:
            a = i
        else:
            longest = max(longest, m + 1)
    if asserted:
        ctx.ok('decision', asserted - (1 if bad else 0))
    if ties:
        ctx.ok(f'tie:{name}', ties)
    if accepted:
        ctx.h('band_accepted_either_way', name + ':inexact-arithmetic', accepted - ambiguous)
        if ambiguous:
            ctx.h('band_accepted_either_way', name + ':t-between-D-and-fl(D)', ambiguous)
    if bad is not None:
        i, a0, m, tie, expected, step, d, how = bad
        key = f'tie:{name}' if tie else f'decision:{name}'
        verb = 'starts a new cluster' if step else 'stays in the cluster'
        want = 'start a new cluster' if expected else 'stay'
        ctx.violation('decision', key,
                      f'{name}: point {i} {verb} but its linkage distance to the run [{a0},{i - 1}] '
                      f'({m} member(s)) is {d!r} {"==" if tie else (">=" if expected else "<")} t = {float(t)!r}, '
                      f'so it must {want} ({how})',
                      linkage=name, t=float(t), point=i, run_start=a0, members=m, distance=d,
                      labels=lab, x=np.asarray(points)[:, 0])
    return longest, ties


def make_post(name):
    def post(ctx, original, args, kwargs, result):
        a = _bind(original, args, kwargs)
        points, t = a['points'], a['t']
        why = _domain(points, t)
        if why is not None:
            ctx.ood(f'post:{name}', why)
            return
        if not isinstance(points, np.ndarray):
            points = np.asarray(points)
        if not labels_ok(ctx, name, len(points), result, t):
            return
        longest, ties = check_decisions(ctx, name, points, t, result)
        ctx.ok(f'post:{name}')
        if longest >= 20 and name in ('centroid_linkage', 'average_linkage'):
            ctx.ok(f'longrun:{name}')
        ctx.h('longest_run:' + name, longest if longest < 4 else ('4-9' if longest < 10 else
                                                                 ('10-19' if longest < 20 else '20+')))
    return post


def setup(ctx, mods):
    for name in LINKAGES:
        install.monitor(ctx, 'clustering', name, make_post(name))
    return {'loops': loops.standard(ctx, mods)}


# ------------------------------------------------------------------------- generator

CLASSES = ['intgap', 'pow2', 'long', 'dyadic', 'float']
CWEIGHTS = [0.22, 0.33, 0.15, 0.12, 0.18]


def _layout_x(rng, cls, big):
    if cls == 'intgap':
        n = int(rng.integers(2, 7)) if rng.random() < 0.12 else int(rng.integers(2, 61))
        gaps = rng.integers(1, 9, n - 1)
        x = np.concatenate(([0], np.cumsum(gaps))).astype(float)
    elif cls == 'pow2':
        total = 2 ** int(rng.integers(2, 9 if not big else 11))
        xs, cur = [0], 0
        while cur < total:
            g = min(int(rng.integers(1, 9)), total - cur)
            cur += g
            xs.append(cur)
        x = np.array(xs, dtype=float)
    elif cls == 'long':
        n = int(rng.integers(40, 121 if not big else 601))
        p2 = rng.uniform(0.0, 0.4)
        gaps = np.where(rng.random(n - 1) < p2, 2, 1)
        if rng.random() < 0.5:            # a few wide gaps so that several long runs exist
            k = int(rng.integers(1, 4))
            gaps[rng.integers(0, n - 1, k)] = rng.integers(20, 60, k)
        x = np.concatenate(([0], np.cumsum(gaps))).astype(float)
    elif cls == 'dyadic':
        n = int(rng.integers(2, 61))
        gaps = rng.integers(1, 33, n - 1) / 4.0
        x = np.concatenate(([0.0], np.cumsum(gaps)))
        if rng.random() < 0.5 and n > 2:  # force the range to a power of two
            tot = x[-2]
            x[-1] = float(2 ** math.ceil(math.log2(tot + 0.25) + 1e-12)) if tot > 0 else 1.0
            if x[-1] <= x[-2]:
                x[-1] = x[-2] * 2
    else:
        n = int(rng.integers(2, 61))
        x = np.cumsum(rng.uniform(0.01, 3.0, n))
        if rng.random() < 0.3:
            # one-decimal data (0.3, 1.4, 2.3, ...): differences and their sums round differently
            x = np.round(np.cumsum(np.round(rng.uniform(0.1, 3.0, n), 1)), 1)
            x = x[np.concatenate(([True], np.diff(x) > 0))]
            if len(x) < 2:
                x = np.array([0.3, 1.4])
    # offset (keeps gaps; exact for integer / dyadic offsets)
    r = rng.random()
    if cls == 'float':
        if r < 0.5:
            x = x + rng.uniform(-100.0, 1000.0)
        elif r < 0.62:
            x = x * 10.0 ** -int(rng.integers(8, 13))        # small units: total range 1e-7 .. 1e-12 (the rule is scale invariant)
    elif r < 0.35:
        x = x + float(rng.integers(-50, 1000))
    elif r < 0.45 and cls == 'dyadic':
        x = x + float(rng.integers(-200, 200)) / 4.0
    return np.ascontiguousarray(x, dtype=float)


def _ratio(x, i, a):
    """fl(|x_i - x_a| / length) exactly as single/complete compute it."""
    return float(math.fabs(x[i] - x[a]) / (x[-1] - x[0]))


def _thresholds(rng, x, cls, k=7):
    n = len(x)
    L = float(x[-1] - x[0])
    out = []
    while len(out) < k:
        r = rng.random()
        if cls == 'long' and r < 0.45:
            t = float(rng.uniform(8.0, 40.0)) / L
        elif r < 0.10 and n >= 4:
            # exact tie between t and the distance of point i to point 0, which certainly starts a cluster
            t = _ratio(x, int(rng.integers(2, min(n, 7))), 0)
        elif r < 0.18:
            t = 2.0 ** -int(rng.integers(1, 9))
        elif r < 0.55:
            a = int(rng.integers(0, n - 1))
            i = min(n - 1, a + int(rng.integers(1, 5)))
            t = _ratio(x, i, a)
        elif r < 0.70 and n >= 3:      # centroid / average tie of a 2-member run
            a = int(rng.integers(0, n - 2))
            t = float((x[a + 2] - (0.5 * x[a] + 0.5 * x[a + 1])) / (x[-1] - x[0]))
        elif r < 0.80 and n >= 5:      # average tie of a 4-member run
            a = int(rng.integers(0, n - 4))
            t = float((4 * x[a + 4] - x[a:a + 4].sum()) / (4 * (x[-1] - x[0])))
        else:
            t = float(10.0 ** rng.uniform(-3.0, 0.0))
        if t > 0.0 and math.isfinite(t):
            out.append(t)
    return out


def _ladder(rng, x):
    n = len(x)
    ratios = sorted({_ratio(x, i, i - 1) for i in range(1, n)})
    if len(ratios) > 8:
        pick = np.unique(np.round(np.linspace(0, len(ratios) - 1, 8)).astype(int))
        ratios = [ratios[j] for j in pick]
    extra = set()
    while len(set(ratios) | extra) < 12:
        r = rng.random()
        if r < 0.4:
            extra.add(2.0 ** -int(rng.integers(1, 11)))
        elif r < 0.7 and n >= 3:
            a = int(rng.integers(0, n - 2))
            i = min(n - 1, a + int(rng.integers(2, 6)))
            extra.add(_ratio(x, i, a))
        else:
            extra.add(float(10.0 ** rng.uniform(-3.0, 0.1)))
    return sorted(set(ratios) | extra)


def pick_(seq, rng):
    return seq[int(rng.integers(0, len(seq)))]


def make_case(rng, big=False):
    cls = CLASSES[int(rng.choice(len(CLASSES), p=CWEIGHTS))]
    x = _layout_x(rng, cls, big)
    n = len(x)
    if rng.random() < 0.05:
        # epoch nanoseconds as int64: sums of a handful of coordinates exceed 2**63, differences do not
        n = int(rng.integers(6, 40))
        x = 1.7e18 + np.cumsum(rng.integers(1, 9, n)).astype(float) * 4096.0 * float(2 ** int(rng.integers(0, 12)))
        pts = np.ascontiguousarray(np.column_stack((x, rng.integers(0, 10, n).astype(float))))
        return {'points': pts, 'class': 'epoch-ns-int64', 'layout': 'i64',
                'ts': _thresholds(rng, x, 'int'), 'ladder': _ladder(rng, x)}
    u = rng.random()
    if u < 0.03:
        # an evenly spaced grid of m+1 points with t equal to one gap ratio: every gap is an exact tie (fl(1/m) against
        # fl(1/m)), every point opens a cluster - m clusters exactly, which no bound derived from 1/t may cut short
        m = int(rng.integers(60, 140))
        x = np.arange(m + 1, dtype=float) * float(pick_([1.0, 2.0, 3.0, 0.5], rng)) + float(rng.integers(0, 5))
        ts = [_ratio(x, 1, 0), _ratio(x, 2, 0), _ratio(x, 1, 0) * 0.5, 2.0 ** -7, float(rng.uniform(0.5, 3.0)) / m, 1.5 * _ratio(x, 1, 0), 0.25]
        pts = np.ascontiguousarray(np.column_stack((x, rng.integers(0, 10, m + 1).astype(float))))
        return {'points': pts, 'class': 'even-grid', 'layout': gen.pick_layout(rng, pts), 'ts': ts, 'ladder': _ladder(rng, x)}
    if u < 0.034:
        # one cluster with thousands of members (periodic re-anchoring / blocked updates only show there)
        n = int(rng.integers(2200, 3600))
        x = np.concatenate(([0], np.cumsum(rng.integers(1, 3, n - 1) if rng.random() < 0.5 else np.ones(n - 1, dtype=int)))).astype(float)
        L = float(x[-1] - x[0])
        ts = [float(rng.uniform(0.15, 0.22)), float(rng.uniform(0.3, 0.45)), 550.8 / L, float(rng.uniform(400.0, 1300.0)) / L,
              float(rng.uniform(1030.0, 1100.0)) / L, 0.5, 2.0 ** -3]
        pts = np.ascontiguousarray(np.column_stack((x, rng.integers(0, 10, n).astype(float))))
        return {'points': pts, 'class': 'huge-cluster', 'layout': 'C', 'ts': ts, 'ladder': _ladder(rng, x)[:6]}
    if rng.random() < 0.03:
        # many clusters: hundreds of points and thresholds at or below the smallest gap ratio, so labels run into the hundreds
        n = int(rng.integers(140, 700))
        x = np.concatenate(([0], np.cumsum(rng.integers(1, 9, n - 1)))).astype(float)
        L = float(x[-1] - x[0])
        ts = [1.0 / L, 0.5 / L, 2.0 / L, float(rng.uniform(1.0, 4.0)) / L, float(rng.uniform(3.0, 9.0)) / L, 2.0 ** -10, 1e-3]
        pts = np.ascontiguousarray(np.column_stack((x, rng.integers(0, 10, n).astype(float))))
        return {'points': pts, 'class': 'many-clusters', 'layout': gen.pick_layout(rng, pts), 'ts': ts, 'ladder': _ladder(rng, x)}
    if cls != 'float' and bool(np.all(x == np.round(x))) and rng.random() < 0.5:
        y = rng.integers(0, 10, n).astype(float)
    else:
        y = rng.random(n)
    pts = np.ascontiguousarray(np.column_stack((x, y)))
    return {'points': pts, 'class': cls, 'layout': gen.pick_layout(rng, pts),
            'ts': _thresholds(rng, x, cls), 'ladder': _ladder(rng, x)}


def long_case(rng):
    """Tens of thousands of points (a full trace handed to the clustering directly): unit gaps, with the few large gaps
    sitting on, just before or just after multiples of 4096 - the seams of any blocked / vectorised evaluation."""
    n = int(rng.integers(16500, 40000))
    if rng.random() < 0.5:
        n = 4096 * int(rng.integers(5, 10)) + int(rng.integers(-1, 2))
    gaps = np.ones(n - 1, dtype=float)
    big = float(rng.integers(200, 2000))
    for s in range(4096, n - 1, 4096):
        if rng.random() < 0.7:
            gaps[s - 1 + int(pick_([0, 0, 0, -1, 1], rng))] = big * float(rng.integers(1, 4))   # gaps[i] = x[i+1] - x[i]
    for _ in range(int(rng.integers(0, 3))):
        gaps[int(rng.integers(0, n - 1))] = big
    x = np.concatenate(([0.0], np.cumsum(gaps))) + float(rng.integers(0, 1000))
    L = float(x[-1] - x[0])
    ts = [big / L, 0.5 * big / L, 2.0 * big / L]
    pts = np.ascontiguousarray(np.column_stack((x, rng.integers(0, 10, n).astype(float))))
    return {'points': pts, 'class': 'long-input', 'layout': pick_(['C', 'i64', 'C'], rng), 'ts': ts, 'ladder': []}


def cases(rng, tier, shard, nshards):
    total = META['quick_cases'] if tier == 'quick' else META['thorough_cases']
    count = shard_count(total, shard, nshards)
    if shard < 4 or tier == 'thorough':
        yield long_case(rng)
    for _ in range(count):
        yield make_case(rng, big=(tier == 'thorough' and rng.random() < 0.1))


def run_case(ctx, mods, case):
    cl = mods['clustering']
    pts = gen.present(case['points'], case['layout'])
    n = len(pts)
    try:
        _run_case(ctx, mods, case, cl, pts, n)
    finally:
        # the last call of every linkage uses the case's first threshold: if the caller refills this very buffer and
        # clusters again (the runner's refill history), its first call repeats (array object, t) with other contents
        if case.get('layout') == 'reuse' and case.get('ts'):
            for name in LINKAGES:
                install.guarded(ctx, f'complete:clustering.{name}', getattr(cl, name), pts, float(case['ts'][0]))


def _run_case(ctx, mods, case, cl, pts, n):
    ctx.h('class', case['class'])
    ctx.h('layout', case['layout'])
    ctx.h('n', n if n < 5 else ('5-19' if n < 20 else ('20-59' if n < 60 else '60+')))
    for t in case['ts']:
        t = float(t)
        for name in LINKAGES:
            ok, lab = install.guarded(ctx, f'complete:clustering.{name}', getattr(cl, name), pts, t)
            if not ok:
                continue
            ctx.ok('complete')
            try:
                k = int(lab[-1]) + 1
                sizes = np.bincount(np.asarray(lab, dtype=int))
            except Exception:
                continue
            ctx.h('clusters:' + name, k if k < 6 else ('6-15' if k < 16 else '16+'))
            if k >= 2 and sizes.max() >= 2:
                ctx.nontriv(case['points'][:, 0], name, t)
                ctx.sample({'linkage': name, 't': t, 'class': case['class'], 'n': n,
                            'x': case['points'][:24, 0], 'labels': np.asarray(lab)[:24]}, cap=6)
    # monotonicity of the cluster count in t (single and complete only)
    ladder = [float(t) for t in case['ladder']]
    for name in ('single_linkage', 'complete_linkage'):
        counts = []
        for t in ladder:
            ok, lab = install.guarded(ctx, f'complete:clustering.{name}', getattr(cl, name), pts, t)
            if not ok:
                counts = None
                break
            try:
                counts.append(int(lab[-1]) + 1)
            except Exception:
                counts = None
                break
        if counts is None:
            continue
        rises = [j for j in range(1, len(counts)) if counts[j] > counts[j - 1]]
        if rises:
            j = rises[0]
            ctx.violation('monotone', f'monotone:{name}',
                          f'{name}: cluster count rises from {counts[j - 1]} at t={ladder[j - 1]!r} to '
                          f'{counts[j]} at t={ladder[j]!r}', linkage=name, ladder=ladder, counts=counts,
                          x=case['points'][:, 0])
        else:
            ctx.ok('monotone')
        ctx.h('ladder_distinct_counts', len(set(counts)))
