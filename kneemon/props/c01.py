"""C01 - simplifiers terminate with a well-formed reduction (DESIGN.md section 4, C01)."""
import numpy as np

from .. import gen, install, loops
from ..common import COSTS, DISTANCES, ORDERS, cost, distance, order, pick, shard_count

META = {
    'refill': True,      # cases presented in a reused buffer are followed by a refill of that buffer (runner)
    'rule': ('cases = 12 curve families x 4 x-patterns x {C,F,view,int64} layouts, each driven through '
             'rdp / grdp / rdp_fixed / mp_grdp / min_point_rdp with random Distance x Metrics x Order x '
             't=10^U(-4,0) (U(0,1) for R2) x length/min_points in 0..n+2; distinct = digest(curve, simplifier, '
             'configuration); non-trivial = reduction with >= 3 retained points, or a curve from a hostile '
             'family (constant, collinear run ending at 0, small-integer plateaus, staircases); long curves (2800..9000 points, half of '
             'them at a length of 256j - 1, 256j or 256j + 1) in every shard'),
    'require': {'wellformed': 3000, 'nontrivial': 500},
    'scale': {'quick': 1, 'thorough': 80},
    'quick_cases': 9000, 'thorough_cases': 240000,
    'assumptions': ['termination is decided as bounded progress per execution (step bounds linear in n and a '
                    'strictly decreasing variant on the RDP work stack), not for all inputs',
                    'sys.monitoring LINE events fire once per loop iteration (CPython 3.12)'],
}

SIMPLIFIERS = ['rdp', 'grdp', 'rdp_fixed', 'mp_grdp', 'min_point_rdp']


def wellformed(ctx, name, points, result):
    n = len(points)
    ok = True
    why = ''
    try:
        reduced, removed = result
        reduced = np.asarray(reduced)
        removed = np.asarray(removed)
        if reduced.ndim != 1 or len(reduced) < 2 or not np.issubdtype(reduced.dtype, np.integer):
            ok, why = False, f'reduced is not an integer index vector of >= 2 entries: {reduced!r}'
        elif reduced[0] != 0 or reduced[-1] != n - 1:
            ok, why = False, f'end points not retained: first={reduced[0]} last={reduced[-1]} n={n}'
        elif not np.all(np.diff(reduced) > 0):
            ok, why = False, f'reduced not strictly increasing: {reduced.tolist()[:40]}'
        elif removed.shape != (len(reduced) - 1, 2):
            ok, why = False, f'removed table shape {removed.shape} != ({len(reduced) - 1}, 2)'
        elif not np.array_equal(removed[:, 0], reduced[:-1]):
            ok, why = False, 'removed[:,0] != left index of each retained segment'
        elif not np.array_equal(removed[:, 1], np.diff(reduced) - 1):
            ok, why = False, f'removed[:,1] != interior point counts: {removed[:, 1].tolist()[:20]} vs {(np.diff(reduced) - 1).tolist()[:20]}'
        elif len(reduced) + removed[:, 1].sum() != n:
            ok, why = False, 'retained + dropped != n'
    except Exception as e:   # result not even a pair
        ok, why = False, f'result is not a (reduced, removed) pair: {e!r}'
    if ok:
        ctx.ok('wellformed')
    else:
        ctx.violation('wellformed', f'wellformed:rdp.{name}', why,
                      simplifier=name, n=n, result=result)
    return ok


def setup(ctx, mods):
    def mk(name):
        def post(ctx, original, args, kwargs, result):
            wellformed(ctx, name, args[0] if args else kwargs['points'], result)
        return post
    for name in SIMPLIFIERS:
        install.monitor(ctx, 'rdp', name, mk(name))
    return {'loops': loops.standard(ctx, mods)}


def cases(rng, tier, shard, nshards):
    total = META['quick_cases'] if tier == 'quick' else META['thorough_cases']
    count = shard_count(total, shard, nshards)
    # long curves (thousands of points) in every tier: size-dependent fast paths, budgets and buffers only show there
    for _ in range(2 if tier == 'quick' else 4):
        u_ = rng.random()
        if u_ < 0.3:
            # saw-tooth between two levels: every split peels one or two points off an end, the refinement tree is a chain
            # about n levels deep
            n = gen.block_size(rng, int(rng.integers(2800, 4200)))
            x = np.arange(n, dtype=float)
            lo_, hi_ = float(rng.integers(1, 5)), float(rng.integers(6, 20))
            pts = np.ascontiguousarray(np.column_stack((x, np.where(np.arange(n) % 2 == 0, hi_, lo_))))
            fam = 'long-sawtooth'
        elif u_ < 0.65:
            pts, fam = gen.long_spiky(rng), 'long-spiky'
        else:
            n = gen.block_size(rng, int(rng.integers(4200, 9000)))
            x = np.cumsum(rng.integers(1, 4, n)).astype(float)
            pts = np.ascontiguousarray(np.column_stack((x, np.round(rng.random(n) * 100.0, 2) + 1.0)))
            fam = 'long-noise'
        cfg = {s: {'t': float(pick(rng, [0.3, 0.5])), 'distance': pick(rng, DISTANCES), 'cost': pick(rng, ['rpd', 'smape', 'rmspe']),
                   'order': pick(rng, ORDERS), 'length': int(rng.integers(10, 40))} for s in SIMPLIFIERS}
        cfg['rdp']['t'] = float(pick(rng, [0.01, 0.05]))           # keeps most points of a noisy curve: a deep split tree
        cfg['min_point_rdp']['tlist'] = [0.5, 0.3]
        if rng.random() < 0.5:
            # global RDP with a tight R2 threshold: hundreds of refinement steps and cache entries in one call
            cfg['grdp'].update({'cost': 'r2', 't': 0.99999 if fam == 'long-spiky' else 0.3})
            cfg['mp_grdp'].update({'cost': 'r2', 't': 0.9999 if fam == 'long-spiky' else 0.2})
        yield {'points': pts, 'family': fam, 'layout': 'C', 'cfg': cfg}
    for i in range(count):
        r = rng.random()
        if tier == 'thorough' and r < 0.01:
            pts, meta = gen.curve(rng, nmax=3000, nmin=400)
        elif tier == 'thorough' and r < 0.10:
            pts, meta = gen.curve(rng, nmax=400, nmin=80)
        elif r > 0.985:
            pts, meta = gen.curve(rng, nmax=600, nmin=150)     # size-dependent behaviour also in the quick tier
        else:
            pts, meta = gen.curve(rng, nmax=80)
        if rng.random() < 0.03:
            # huge / tiny magnitudes (the property quantifies over them): distances and products over- or underflow
            pts = pts * 10.0 ** float(pick(rng, [150, 155, 160, -160, -165, -170]))
            if not (np.all(np.isfinite(pts)) and np.all(np.diff(pts[:, 0]) > 0)):
                pts, meta = gen.curve(rng, nmax=80)
            else:
                meta = dict(meta, family=meta['family'] + '+extreme-magnitude')
        lay = None
        if rng.random() < 0.03:
            pts, meta, lay = gen.large_int_curve(rng), {'family': 'large-int64'}, 'i64'
        n = len(pts)
        c = {'points': pts, 'family': meta['family'], 'layout': lay or gen.pick_layout(rng, pts)}
        cfg = {}
        for s in SIMPLIFIERS:
            cs = pick(rng, COSTS)
            cfg[s] = {'t': gen.threshold(rng, cs), 'distance': pick(rng, DISTANCES), 'cost': cs,
                      'order': pick(rng, ORDERS), 'length': int(rng.integers(0, n + 3))}
        k = int(rng.integers(1, 4))
        cfg['min_point_rdp']['tlist'] = [float(10.0 ** rng.uniform(-4, 0)) for _ in range(k)]
        c['cfg'] = cfg
        yield c
    if tier == 'thorough' and shard < 3:
        name = ['usr0.csv', 'web0_reduced.csv', 'web2.csv'][shard]
        tr = gen.trace(name)
        if tr is not None:
            if len(tr) > 20000:
                tr = tr[::7]
            cfg = {s: {'t': 0.01, 'distance': 'shortest', 'cost': 'rpd', 'order': 'segment', 'length': 30}
                   for s in SIMPLIFIERS}
            cfg['min_point_rdp']['tlist'] = [0.01, 0.001]
            yield {'points': np.ascontiguousarray(tr), 'family': 'trace:' + name, 'layout': 'C', 'cfg': cfg}


def run_case(ctx, mods, case):
    rdp = mods['rdp']
    pts = gen.present(case['points'], case['layout'])
    n = len(pts)
    fam = case['family']
    for s in SIMPLIFIERS:
        g = case['cfg'][s]
        d, c, o = distance(mods, g['distance']), cost(mods, g['cost']), order(mods, g['order'])
        if s == 'rdp':
            call = lambda: rdp.rdp(pts, g['t'], d, c)
            key = (g['t'], g['distance'], g['cost'])
        elif s == 'grdp':
            call = lambda: rdp.grdp(pts, g['t'], d, c, o)
            key = (g['t'], g['distance'], g['cost'], g['order'])
        elif s == 'rdp_fixed':
            call = lambda: rdp.rdp_fixed(pts, g['length'], d, o)
            key = (g['length'], g['distance'], g['order'])
        elif s == 'mp_grdp':
            call = lambda: rdp.mp_grdp(pts, g['t'], g['length'], d, c, o)
            key = (g['t'], g['length'], g['distance'], g['cost'], g['order'])
        else:
            tl = list(g['tlist'])
            call = lambda: rdp.min_point_rdp(pts, tl, g['length'])
            key = (tuple(g['tlist']), g['length'])
        ok, res = install.guarded(ctx, f'complete:rdp.{s}', call)
        if not ok:
            continue
        ctx.ok('complete')
        ctx.h('simplifier_x_family', f'{s}/{fam.split(":")[0]}')
        try:
            kept = len(res[0])
        except Exception:
            continue
        ctx.h('retained_points', kept if kept < 6 else ('6-15' if kept < 16 else ('16-99' if kept < 100 else '100+')))
        ctx.h('layout', case['layout'])
        if kept >= 3 or fam in gen.HOSTILE:
            ctx.nontriv(case['points'], s, key)
        if kept >= 3:
            ctx.sample({'simplifier': s, 'config': g, 'family': fam, 'n': n,
                        'points_head': case['points'][:6], 'reduced': res[0][:20]})
