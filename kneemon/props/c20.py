"""C20 - public functions are pure, deterministic, layout-independent and fully linked."""
import hashlib
import math
import os
import sys
import tempfile

import numpy as np

from .. import gen, install, link, loops
from ..common import EPS, pick, shard_count
from ..ctx import HarnessError, LoopBoundExceeded
from ..runner import refill_values

META = {
    'rule': ('scenario cases = one curve (generic float families and exactly-integral families) with derived knee sets, a '
             'reduction, expected points, positive vectors, rectangles, a miss-ratio curve; ~110 public entry points are each called '
             '(i) on the C-contiguous float64 representation with argument digests taken before/after (purity, mutable defaults '
             'included), (ii) again on the same arguments (determinism, bitwise NaN-aware), (iii) on Fortran-ordered, strided-view '
             'and - when all values are integral - int64 representations (index/label outputs identical, floats within 8 ulp + '
             'cancellation floor). One "link" case per run resolves every name, module attribute, intra-package call signature, '
             'tuple-unpacking arity and local import of every live function object; a RAISE monitor records NameError / '
             'UnboundLocalError / AttributeError / arity and not-callable TypeError raised in package frames during all of it; a probe on '
             'convex_hull._ccw counts the evaluations that wrapped in int64 (attribution of the open finding F-2); one "reach" '
             'case calls every public function once under a line-coverage monitor. distinct = digest(entry point, values); '
             'non-trivial = call with >= 1 array argument whose result is non-empty'),
    'require': {'purity': 8000, 'determinism': 8000, 'representation': 12000, 'link:functions': 100, 'nontrivial': 6000},
    'noscale': ('link:functions',),
    'scale': {'quick': 1, 'thorough': 24},
    'quick_cases': 144, 'thorough_cases': 3600,
    'assumptions': ['float outputs may differ by <= 8 ulp between memory layouts (NumPy picks a different dot kernel for '
                    'Fortran-ordered input: 1 ulp observed in shortest_distance_points)',
                    'the linkage clause is complete for names, module/class attributes, intra-package and uts call signatures; '
                    'attribute access on values and calls through local aliases are checked only on reached paths'],
}

# --------------------------------------------------------------------------- comparison helpers


def argdigest(o):
    h = hashlib.blake2b(digest_size=8)

    def upd(v):
        if isinstance(v, np.ndarray):
            h.update(b'A' + str(v.dtype).encode() + str(v.shape).encode() + np.ascontiguousarray(v).tobytes())
        elif isinstance(v, (list, tuple)):
            h.update(b'L' if isinstance(v, list) else b'T')
            for e in v:
                upd(e)
        elif isinstance(v, dict):
            h.update(b'D')
            for k in v:
                h.update(repr(k).encode())
                upd(v[k])
        else:
            h.update(repr(v).encode())
    upd(o)
    return h.hexdigest()


RAW = [0.0]     # largest raw ulp distance seen by the last tolerant comparison


def _isint(a):
    return isinstance(a, (int, np.integer, bool, np.bool_)) or (isinstance(a, np.ndarray) and a.dtype.kind in 'iub')


def same(a, b, exact):
    """(equal?, max ulp distance observed). exact=True: bitwise NaN-aware equality (determinism)."""
    if isinstance(a, dict) and isinstance(b, dict):
        if set(a) != set(b):
            return False, 0.0
        worst = 0.0
        for k in a:
            ok, u = same(a[k], b[k], exact)
            if not ok:
                return False, u
            worst = max(worst, u)
        return True, worst
    if isinstance(a, (tuple, list)) and isinstance(b, (tuple, list)):
        if len(a) != len(b):
            return False, 0.0
        worst = 0.0
        for x, y in zip(a, b):
            ok, u = same(x, y, exact)
            if not ok:
                return False, u
            worst = max(worst, u)
        return True, worst
    if a is None or b is None or isinstance(a, (str, bytes)) or isinstance(b, (str, bytes)):
        return (a is b or a == b), 0.0
    try:
        x, y = np.asarray(a), np.asarray(b)
    except Exception:
        return a == b, 0.0
    if x.dtype == object or y.dtype == object:
        try:
            return bool(a == b), 0.0
        except Exception:
            return False, 0.0
    if x.shape != y.shape:
        return False, 0.0
    if x.size == 0:
        return True, 0.0
    if x.dtype.kind in 'iub' and y.dtype.kind in 'iub':
        return bool(np.array_equal(x, y)), 0.0
    xf, yf = x.astype(float), y.astype(float)
    nx, ny = np.isnan(xf), np.isnan(yf)
    if not np.array_equal(nx, ny):
        return False, 0.0
    if exact:
        return bool(np.array_equal(xf[~nx], yf[~nx]) and x.dtype == y.dtype), 0.0
    xf, yf = xf[~nx], yf[~nx]
    if xf.size == 0:
        return True, 0.0
    if not np.array_equal(np.isinf(xf), np.isinf(yf)) or not np.array_equal(xf[np.isinf(xf)], yf[np.isinf(yf)]):
        return False, 0.0
    fin = np.isfinite(xf)
    xf, yf = xf[fin], yf[fin]
    if xf.size == 0:
        return True, 0.0
    mag = np.maximum(np.abs(xf), np.abs(yf))
    RAW[0] = max(RAW[0], float(np.max(np.abs(xf - yf) / (EPS * np.maximum(mag, 1e-300)))) if float(np.max(mag)) > 1e-9 else 0.0)
    scale = float(np.max(mag)) if mag.size else 0.0
    ulp = np.abs(xf - yf) / (EPS * np.maximum(mag, 1e-300))
    floor = 64 * EPS * max(scale, 1.0)        # cancellation floor for outputs that are differences of O(scale) terms
    bad = (ulp > 8) & (np.abs(xf - yf) > floor)
    worst = float(np.max(np.where(np.abs(xf - yf) > floor, ulp, 0.0))) if ulp.size else 0.0
    return (not bool(np.any(bad))), worst


# --------------------------------------------------------------------------- scenario


_REUSE = {}


class Scenario:
    """Values of one scenario; ``view(layout)`` presents the arrays in one memory representation."""

    def __init__(self, rng, mods, integral):
        self.integral = integral
        self.probe_rng = np.random.default_rng(int(rng.integers(0, 2 ** 31)))
        if integral:
            fam = pick(rng, ['smallint', 'pwl', 'stairs', 'collinear0'])
            for _ in range(20):
                pts, meta = gen.curve(rng, nmax=40, nmin=12, family=fam)
                pts = np.round(pts)
                pts[:, 1] = np.abs(pts[:, 1])
                if np.all(np.diff(pts[:, 0]) > 0) and np.ptp(pts[:, 1]) > 0 and np.max(pts) < 2 ** 31:
                    break
                fam = 'smallint'
            pts[:, 1] += 1.0
        else:
            fam = pick(rng, ['mrc', 'noise', 'inv', 'expdecay', 'quad', 'trace', 'noise', 'sigmoid', 'sigmoid', 'sigmoid'])
            pts, meta = gen.curve(rng, nmax=60, nmin=12, family=fam)
            if np.ptp(pts[:, 1]) == 0 or len(pts) < 12 or np.max(pts[:, 1]) > 1e12:
                pts, meta = gen.curve(rng, nmax=60, nmin=12, family='noise')
            pts = pts.copy()
            pts[:, 1] += 0.05 * float(np.max(pts[:, 1])) + 1e-6      # keep relative metrics well-conditioned
        self.family = fam
        self.P = np.ascontiguousarray(pts, dtype=float)
        n = len(pts)
        self.n = n
        self.K = gen.knee_subset(rng, n, kmin=3, kmax=8, lo=2, hi=n - 3)
        self.PK = self.P[self.K].copy()
        with install.quiet():
            red, rem = mods['rdp'].rdp_fixed(self.P, max(6, n // 2))
        self.reduced, self.removed = np.asarray(red), np.asarray(rem)
        self.KR = gen.knee_subset(rng, len(self.reduced), kmin=1, kmax=4)
        m = int(rng.integers(1, 5))
        idx = np.sort(rng.choice(np.arange(1, n - 1), size=m, replace=False))
        E = self.P[idx].copy()
        if not integral:
            E = E * (1.0 + 0.01 * rng.standard_normal(E.shape))
        self.E = np.abs(E)
        ln = int(rng.integers(3, 30))
        if integral:
            self.va = rng.integers(1, 50, ln).astype(float)
            self.vb = rng.integers(1, 50, ln).astype(float)
        else:
            self.va = rng.uniform(0.5, 50.0, ln)
            self.vb = self.va * (1.0 + 0.1 * rng.standard_normal(ln)) + 0.01
            self.vb = np.abs(self.vb) + 0.01
        # signed data: a vector in (-0.5, 0.5] and the curve with its y centred (values below 0 but above -1) - legal for the
        # logarithmic and absolute metrics, and exactly where 'clean the input up in place' edits show
        self.vn = self.va / float(np.max(self.va)) - 0.5
        self.PN = np.column_stack((self.P[:, 0], self.P[:, 1] / float(np.max(self.P[:, 1])) - 0.5))
        self.rects = rng.integers(0, 6, (4, 2)).astype(float) if integral else rng.uniform(0, 5, (4, 2))
        tri = rng.integers(-8, 9, (3, 2)).astype(float) if integral else rng.uniform(-8, 8, (3, 2))
        while abs((tri[1, 0] - tri[0, 0]) * (tri[2, 1] - tri[0, 1]) - (tri[2, 0] - tri[0, 0]) * (tri[1, 1] - tri[0, 1])) < 0.5 \
                or len({tuple(r) for r in tri.tolist()}) < 3:
            tri = rng.integers(-8, 9, (3, 2)).astype(float)
        self.tri = tri
        self.tlist = [float(10.0 ** rng.uniform(-3, -0.5)) for _ in range(int(rng.integers(1, 4)))]
        nz = int(rng.integers(12, 50))
        zy = np.sort(rng.random(nz))[::-1].copy()
        if rng.random() < 0.5:
            zy = np.round(zy, 1)
        self.Z = np.column_stack((np.cumsum(rng.integers(1, 6, nz)).astype(float), zy))
        self.values = rng.random(int(rng.integers(3, 12)))
        if integral:
            self.values = np.round(self.values * 10)
        gp = rng.permutation(36)[:int(rng.integers(5, 12))]
        self.G = np.column_stack((gp // 6, gp % 6)).astype(float)
        self.t = float(10.0 ** rng.uniform(-3, -0.5))
        self.tc = float(10.0 ** rng.uniform(-2.0, 0))
        self.k = int(rng.integers(3, n + 2))
        self.cmx = np.array([[int(rng.integers(1, 30)), int(rng.integers(0, 30))], [int(rng.integers(0, 30)), int(rng.integers(1, 500))]])

    def enlarge(self, mods):
        """Integral values of magnitude ~1e10 (byte offsets, request counts): products of differences exceed 2^63."""
        self.large = True
        self.P = np.column_stack((self.P[:, 0] * 1e9 + 4e10, self.P[:, 1] * 3e9))
        self.PK = self.P[self.K].copy()
        E = np.round(self.E)
        self.E = np.column_stack((E[:, 0] * 1e9 + 4e10, E[:, 1] * 3e9))
        self.va, self.vb = self.va * 3e9, self.vb * 3e9 + 7
        if self.probe_rng.random() < 0.4:
            # anisotropic point set: abscissae in multiples of 2 GiB, small ordinates, several points on the bottom row (collinear
            # with the scan's anchor) - no product of an x and a y difference leaves int64, but any SQUARED x difference does
            self.aniso = True
            G = self.G.copy()
            G[:, 0] = G[:, 0] * float(2 ** 31)
            self.G = G
            self.tri, self.rects = self.tri * 5e9, self.rects * 5e9
        else:
            self.G, self.tri, self.rects = self.G * 5e9, self.tri * 5e9, self.rects * 5e9
        with install.quiet():
            red, rem = mods['rdp'].rdp_fixed(self.P, max(6, self.n // 2))
        self.reduced, self.removed = np.asarray(red), np.asarray(rem)
        self.KR = self.KR[self.KR < len(self.reduced) - 1]
        if len(self.KR) == 0:
            self.KR = np.array([1])

    large = False
    aniso = False

    def view(self, layout, alt=False, flat=False):
        v = type('V', (), {})()
        v.s = self
        v.layout = layout
        for name in ('P', 'PK', 'E', 'va', 'vb', 'rects', 'tri', 'Z', 'values', 'G', 'vn', 'PN'):
            arr = getattr(self, name)
            if flat:
                # degenerate but legal-looking inputs (a constant curve, constant vectors): only used as history
                # between two identical calls, never judged themselves
                arr = np.array(arr, dtype=float)
                if name in ('P', 'PK', 'Z', 'E', 'PN'):
                    arr[:, 1] = (float(np.round(np.mean(self.P[:, 1]))) if name != 'PN' else -0.25) if name != 'Z' else 0.5
                elif name in ('va', 'vb', 'values'):
                    arr[...] = 3.0
            if alt:
                # another valid input of the same shapes (used to pre-load reused buffers with different contents)
                if name in ('P', 'Z', 'PN'):
                    arr = refill_values(arr) if name != 'PN' else np.column_stack((refill_values(self.P)[:, 0], arr[::-1, 1]))
                elif name == 'PK':
                    arr = refill_values(self.P)[self.K]
                elif name == 'vn':
                    arr = arr[::-1] * 0.5
                elif name in ('va', 'vb', 'values'):
                    arr = arr[::-1] * 2.0 + 1.0
                elif name == 'G':
                    arr = arr[:, ::-1] * 2.0
            lay = layout
            if lay == 'i64' and not gen.is_integral(arr):
                lay = 'C'
            if lay == 'reuse':
                # one persistent buffer per (field, shape): gen.present's registry is per shape only and two fields of one
                # scenario may have equal shapes
                buf = _REUSE.get((name, arr.shape))
                if buf is None:
                    buf = _REUSE[(name, arr.shape)] = np.empty(arr.shape, dtype=float)
                buf[...] = arr
                setattr(v, name, buf)
            else:
                setattr(v, name, gen.present(arr, lay))
        v.x, v.y = v.P[:, 0], v.P[:, 1]
        v.PR = v.P[self.reduced]
        for name in ('K', 'KR', 'reduced', 'removed', 'n', 't', 'tc', 'k', 'cmx'):
            setattr(v, name, getattr(self, name))
        v.tlist = list(self.tlist)
        return v


# --------------------------------------------------------------------------- entry points

def entries(m):
    """name -> callable(view) for ~110 public entry points.  ``m`` = modules dict."""
    rdp, lf, me, ev, cl, ch, pp, kr = (m['rdp'], m['linear_fit'], m['metrics'], m['evaluation'], m['clustering'],
                                       m['convex_hull'], m['postprocessing'], m['knee_ranking'])
    cu, df, mg, lm, kn, mk, zm = m['curvature'], m['dfdt'], m['menger'], m['lmethod'], m['kneedle'], m['multi_knee'], m['zmethod']
    D, O, M = rdp.Distance, rdp.Order, me.Metrics
    E = {}
    # --- rdp
    for d in D:
        for c in M:
            E[f'rdp.rdp[{d},{c}]'] = lambda v, d=d, c=c: rdp.rdp(v.P, min(v.t, 1.0), d, c)
        for o in O:
            E[f'rdp.rdp_fixed[{d},{o}]'] = lambda v, d=d, o=o: rdp.rdp_fixed(v.P, v.k, d, o)
            E[f'rdp.grdp[{d},{o}]'] = lambda v, d=d, o=o: rdp.grdp(v.P, v.t, d, M.rpd, o)
    for c in M:
        E[f'rdp.grdp[{c}]'] = lambda v, c=c: rdp.grdp(v.P, 0.9 if c is M.r2 else v.t, D.shortest, c, O.segment)
        E[f'rdp.mp_grdp[{c}]'] = lambda v, c=c: rdp.mp_grdp(v.P, 0.9 if c is M.r2 else v.t, v.k, D.shortest, c, O.triangle)
        E[f'rdp.compute_cost_coef[{c}]'] = lambda v, c=c: rdp.compute_cost_coef(v.P, lf.linear_fit_points(v.P), c)
    for c in (M.rmsle, M.rmspe, M.r2):
        E[f'evaluation.compute_partial_cost[signed,{c}]'] = lambda v, c=c: ev.compute_partial_cost(v.vn, v.vn[::-1] * 0.5, c)
        E[f'evaluation.compute_global_cost[signed,{c}]'] = lambda v, c=c: ev.compute_global_cost(v.PN, v.reduced, c)
    E['rdp.grdp[signed,rmsle]'] = lambda v: rdp.grdp(v.PN, v.t, D.shortest, M.rmsle, O.segment)
    E['rdp.rdp[signed,rmsle]'] = lambda v: rdp.rdp(v.PN, min(v.t, 1.0), D.shortest, M.rmsle)
    E['rdp.min_point_rdp'] = lambda v: rdp.min_point_rdp(v.P, v.tlist, v.k)
    E['rdp.min_point_rdp[default]'] = lambda v: rdp.min_point_rdp(v.P)
    E['rdp.mapping'] = lambda v: rdp.mapping(v.KR, v.reduced, v.removed)
    E['rdp.mapping[unsorted]'] = lambda v: rdp.mapping(v.KR, v.reduced, v.removed[::-1], sorted=False)
    E['rdp.compute_removed_points'] = lambda v: rdp.compute_removed_points(v.P, v.reduced)
    E['rdp.order_triangle'] = lambda v: rdp.order_triangle(v.P, v.n // 2, lf.shortest_distance_points)
    E['rdp.order_area'] = lambda v: rdp.order_area(v.P, v.n // 2, lf.perpendicular_distance_points)
    E['rdp.order_segment'] = lambda v: rdp.order_segment(v.P, v.n // 2)
    # --- detectors
    E['curvature.knee'] = lambda v: cu.knee(v.P)
    E['curvature.multi_knee'] = lambda v: cu.multi_knee(v.P, v.t, 3)
    E['dfdt.knee'] = lambda v: df.knee(v.P)
    E['dfdt.get_knee'] = lambda v: df.get_knee(v.x, v.y)
    E['dfdt.multi_knee'] = lambda v: df.multi_knee(v.P, v.t, 3)
    E['menger.knee'] = lambda v: mg.knee(v.P)
    E['menger.multi_knee'] = lambda v: mg.multi_knee(v.P, v.t, 4)
    E['menger.menger_curvature'] = lambda v: mg.menger_curvature(v.tri[0], v.tri[1], v.tri[2])
    for f in lm.Fit:
        for c in lm.Cost:
            E[f'lmethod.get_knee[{f},{c}]'] = lambda v, f=f, c=c: lm.get_knee(v.x, v.y, f, c)
            E[f'lmethod.compute_error[{f},{c}]'] = lambda v, f=f, c=c: lm.compute_error(v.x, v.y, 3, v.x[-1] - v.x[0], f, c)
        for r in lm.Refinement:
            E[f'lmethod.knee[{f},{r}]'] = lambda v, f=f, r=r: lm.knee(v.P, f, r, 5)
    E['lmethod.multi_knee'] = lambda v: lm.multi_knee(v.P, v.t, 4)
    # the Z-method's early exits (fewer than 4 points; a curve that never leaves 1.0)
    E['zmethod.knees[3 points]'] = lambda v: zm.knees(v.Z[:3])
    E['zmethod.getPoints[3 points]'] = lambda v: zm.getPoints(v.Z[:3])
    E['zmethod.knees[all ones]'] = lambda v: zm.knees(np.column_stack((v.Z[:, 0], np.ones(len(v.Z)))))
    E['kneedle.knee'] = lambda v: kn.knee(v.P)
    E['kneedle.knee[t=0]'] = lambda v: kn.knee(v.P, 0)
    for p in kn.PeakDetection:
        E[f'kneedle.knees[{p}]'] = lambda v, p=p: kn.knees(v.P, 1.0, 1.0, p)
    E['kneedle.multi_knee'] = lambda v: kn.multi_knee(v.P, v.t, 3)
    # x in units 2000 times smaller (bytes instead of 2 KB blocks): the exponential smoother silently underflows, so the
    # result of these calls depends on NumPy's process-wide floating-point error mode being left alone
    E['kneedle.knee[wide-x]'] = lambda v: kn.knee(v.P * np.array([2000, 1]), 1.0)
    E['kneedle.knees[wide-x]'] = lambda v: kn.knees(v.P * np.array([2000, 1]), 1.0)
    E['kneedle.multi_knee[wide-x]'] = lambda v: kn.multi_knee(v.P * np.array([2000, 1]), v.t, 3)
    for cd in kn.Direction:
        for cc in kn.Concavity:
            E[f'kneedle.differences[{cd},{cc}]'] = lambda v, cd=cd, cc=cc: kn.differences(v.P, cd, cc)
    E['multi_knee.multi_knee[r2]'] = lambda v: mk.multi_knee(cu.knee, v.P, 0.9, 3, M.r2)
    # --- hulls
    E['convex_hull.graham_scan'] = lambda v: ch.graham_scan(v.G)
    E['convex_hull.graham_scan_lower'] = lambda v: ch.graham_scan_lower(v.P)
    E['convex_hull.graham_scan_upper'] = lambda v: ch.graham_scan_upper(v.P)
    # --- evaluation
    for c in M:
        E[f'evaluation.compute_global_cost[{c}]'] = lambda v, c=c: ev.compute_global_cost(v.P, v.reduced, c)
        E[f'evaluation.compute_global_cost[{c},cache]'] = lambda v, c=c: ev.compute_global_cost(v.P, list(v.reduced), c, {})
        E[f'evaluation.compute_partial_cost[{c}]'] = lambda v, c=c: ev.compute_partial_cost(v.va, v.vb, c)
    E['evaluation.compute_global_rmse'] = lambda v: ev.compute_global_rmse(v.P, v.reduced)
    E['evaluation.mip'] = lambda v: ev.mip(v.P, v.reduced)
    for t in (0.0, 0.05, 1.0):
        E[f'evaluation.cm[{t}]'] = lambda v, t=t: ev.cm(v.P, v.K, v.E, t)
    for s in ev.Strategy:
        E[f'evaluation.mae[{s}]'] = lambda v, s=s: ev.mae(v.P, v.K, v.E, s)
        E[f'evaluation.mse[{s}]'] = lambda v, s=s: ev.mse(v.P, v.K, v.E, s)
        E[f'evaluation.rmse[{s}]'] = lambda v, s=s: ev.rmse(v.P, v.K, v.E, s)
        E[f'evaluation.rmspe[{s}]'] = lambda v, s=s: ev.rmspe(v.P, v.K, v.E, s)
    E['evaluation.accuracy'] = lambda v: ev.accuracy(v.cmx)
    E['evaluation.f1score'] = lambda v: ev.f1score(v.cmx)
    E['evaluation.mcc'] = lambda v: ev.mcc(v.cmx)
    E['evaluation.get_neighbourhood'] = lambda v: ev.get_neighbourhood(v.x, v.y, v.n - 2, 0, 0.9)
    E['evaluation.get_neighbourhood_points'] = lambda v: ev.get_neighbourhood_points(v.P, v.n - 2, 1, 0.8)
    E['evaluation.get_neighbourhood_fast'] = lambda v: ev.get_neighbourhood_fast(v.x, v.y, v.n - 2, 0, 0.9)
    E['evaluation.get_neighbourhood_fast_points'] = lambda v: ev.get_neighbourhood_fast_points(v.P, v.n - 2, 1, 0.8)
    E['evaluation.get_neighbourhood_binary'] = lambda v: ev.get_neighbourhood_binary(v.x, v.y, v.n - 2, 0, 0.9)
    E['evaluation.accuracy_knee'] = lambda v: ev.accuracy_knee(v.P, v.K)
    E['evaluation.accuracy_trace'] = lambda v: ev.accuracy_trace(v.P, v.K)
    # --- clustering
    for name in ('single_linkage', 'complete_linkage', 'centroid_linkage', 'average_linkage'):
        E[f'clustering.{name}'] = lambda v, name=name: getattr(cl, name)(v.PK, v.tc)
    # --- postprocessing / ranking
    E['postprocessing.filter_worst_knees'] = lambda v: pp.filter_worst_knees(v.P, v.K)
    E['postprocessing.filter_corner_knees'] = lambda v: pp.filter_corner_knees(v.P, v.K, 0.33)
    E['postprocessing.select_corner_knees'] = lambda v: pp.select_corner_knees(v.P, v.K, 0.33)
    for r in kr.ClusterRanking:
        E[f'postprocessing.filter_clusters[{r}]'] = lambda v, r=r: pp.filter_clusters(v.P, v.K, cl.average_linkage, v.tc, r)
        if r is not kr.ClusterRanking.hull:
            E[f'knee_ranking.smooth_ranking[{r}]'] = lambda v, r=r: kr.smooth_ranking(v.P, v.K, r)
    E['postprocessing.filter_clusters_corners'] = lambda v: pp.filter_clusters_corners(v.P, v.K, cl.single_linkage, v.tc)
    for ex in (False, True):
        E[f'postprocessing.add_points_even[{ex}]'] = lambda v, ex=ex: pp.add_points_even(v.P, v.reduced, v.KR, v.removed, 0.05, 0.05, ex)
        E[f'postprocessing.add_points_even_knees[{ex}]'] = lambda v, ex=ex: pp.add_points_even_knees(v.P, v.K, 0.05, 0.05, ex)
    E['postprocessing.triangle_area'] = lambda v: pp.triangle_area(v.tri)
    E['postprocessing.rank_corners_triangle'] = lambda v: pp.rank_corners_triangle(v.P, v.K)
    E['postprocessing.rank_corners'] = lambda v: pp.rank_corners(v.P, v.K)
    E['knee_ranking.distances'] = lambda v: kr.distances(v.P[0], v.P)
    E['knee_ranking.rect'] = lambda v: kr.rect(v.rects[0], v.rects[1])
    E['knee_ranking.rect_overlap'] = lambda v: kr.rect_overlap(*kr.rect(v.rects[0], v.rects[1]), *kr.rect(v.rects[2], v.rects[3]))
    E['knee_ranking.distance_to_similarity'] = lambda v: kr.distance_to_similarity(v.values)
    E['knee_ranking.rank'] = lambda v: kr.rank(v.values)
    E['knee_ranking.slope_ranking'] = lambda v: kr.slope_ranking(v.P, v.K)
    # --- zmethod
    E['zmethod.knees'] = lambda v: zm.knees(v.Z, 0.1, 0.1, 0.5)
    E['zmethod.knees[override]'] = lambda v: zm.knees(v.Z, 0.05, 0.05, 0.3, x_max=int(v.Z[-1, 0]), y_range=[1, 0])
    E['zmethod.getPoints'] = lambda v: zm.getPoints(v.Z, 0.1, 0.1, 0.5)
    E['zmethod.getPoints[plot]'] = lambda v: zm.getPoints(v.Z, 0.1, 0.1, 0.5, True)
    for o in zm.Outlier:
        E[f'zmethod.knees2[{o}]'] = lambda v, o=o: zm.knees2(v.Z, 0.05, 0.05, o)
    E['zmethod.map_index'] = lambda v: zm.map_index(v.x, v.x[v.K])
    # --- linear_fit
    E['linear_fit.linear_fit_points'] = lambda v: lf.linear_fit_points(v.P)
    E['linear_fit.linear_transform_points'] = lambda v: lf.linear_transform_points(v.P, (0.5, 2.0))
    E['linear_fit.linear_hv_residuals_points'] = lambda v: lf.linear_hv_residuals_points(v.P)
    E['linear_fit.linear_fit_transform_points'] = lambda v: lf.linear_fit_transform_points(v.P)
    E['linear_fit.linear_fit_transform_points[vertical]'] = lambda v: lf.linear_fit_transform_points(v.P, True)
    for r2 in me.R2:
        E[f'linear_fit.linear_r2_points[{r2}]'] = lambda v, r2=r2: lf.linear_r2_points(v.P, lf.linear_fit_points(v.P), r2)
        E[f'linear_fit.r2_points[{r2}]'] = lambda v, r2=r2: lf.r2_points(v.P, r2)
        E[f'linear_fit.r2[{r2}]'] = lambda v, r2=r2: lf.r2(v.x, v.y, r2)
        E[f'metrics.r2[{r2}]'] = lambda v, r2=r2: me.r2(v.va, v.vb, r2)
    for name in ('rmspe_points', 'rmsle_points', 'smape_points', 'rpd_points', 'rmse_points', 'linear_residuals_points'):
        E[f'linear_fit.{name}'] = lambda v, name=name: getattr(lf, name)(v.P, lf.linear_fit_points(v.P))
    for name in ('rmspe', 'rmsle', 'smape', 'rpd', 'rmse', 'linear_residuals'):
        E[f'linear_fit.{name}'] = lambda v, name=name: getattr(lf, name)(v.x, v.y, lf.linear_fit(v.x, v.y))
    E['linear_fit.linear_fit_residuals_points'] = lambda v: lf.linear_fit_residuals_points(v.P)
    E['linear_fit.angle'] = lambda v: lf.angle((0.0, 0.5), (1.0, 2.0))
    E['linear_fit.shortest_distance_points'] = lambda v: lf.shortest_distance_points(v.P, v.P[0], v.P[-1])
    E['linear_fit.shortest_distance_points[a==b]'] = lambda v: lf.shortest_distance_points(v.P, v.P[1], v.P[1])
    E['linear_fit.perpendicular_distance'] = lambda v: lf.perpendicular_distance(v.P)
    E['linear_fit.perpendicular_distance_index'] = lambda v: lf.perpendicular_distance_index(v.P, 2, v.n - 3)
    E['linear_fit.perpendicular_distance_points'] = lambda v: lf.perpendicular_distance_points(v.P, v.P[0], v.P[-1])
    # --- metrics
    for name in ('rmse', 'rmsle', 'rmspe', 'rpd', 'residuals', 'smape'):
        E[f'metrics.{name}'] = lambda v, name=name: getattr(me, name)(v.va, v.vb)
    return E


REACH_ONLY = {'rdp.plot_frame', 'evaluation.compute_global_segment_cost'}


# --------------------------------------------------------------------------- RAISE monitor

class RaiseMonitor:
    TOOL = 4

    def __init__(self, ctx):
        self.ctx = ctx
        self.on = False
        self.seen = 0

    def start(self):
        mon = sys.monitoring
        mon.use_tool_id(self.TOOL, 'kneemon-raise')
        mon.register_callback(self.TOOL, mon.events.RAISE, self._raise)
        mon.set_events(self.TOOL, mon.events.RAISE)
        self.on = True

    def stop(self):
        if self.on:
            mon = sys.monitoring
            mon.set_events(self.TOOL, 0)
            mon.register_callback(self.TOOL, mon.events.RAISE, None)
            mon.free_tool_id(self.TOOL)
            self.on = False

    def _raise(self, code, offset, exc):
        fn = code.co_filename
        if '/kneeliverse/' not in fn:
            return
        self.seen += 1
        kind = None
        msg = str(exc)
        if isinstance(exc, UnboundLocalError):
            kind = 'UnboundLocalError'
        elif isinstance(exc, NameError):
            kind = 'NameError'
        elif isinstance(exc, AttributeError):
            # a module attribute that does not exist, or a value whose type lacks the attribute / method the code uses on
            # it (e.g. a plain list returned by one branch where every other branch returns an ndarray)
            kind = 'AttributeError'
        elif isinstance(exc, TypeError) and any(s in msg for s in ('positional argument', 'unexpected keyword argument',
                                                                    'required keyword', 'multiple values for argument')):
            kind = 'TypeError'
        elif isinstance(exc, TypeError) and msg.endswith('object is not callable'):
            # a name used in call position that resolves to something that cannot be called (a parameter or local shadowing
            # the builtin / module function the code means); no C20 entry hands the package a non-callable
            kind = 'TypeError'
        if kind:
            site = f"{fn.rsplit('/', 1)[-1][:-3]}.{code.co_name}"
            self.ctx.violation('raise-monitor', f'link:{site}:{kind}', f'{kind} raised in {site}: {msg}')


# --------------------------------------------------------------------------- coverage (reach)

class Coverage:
    TOOL = 5

    def __init__(self):
        self.hit = set()

    def start(self):
        mon = sys.monitoring
        mon.use_tool_id(self.TOOL, 'kneemon-cov')
        mon.register_callback(self.TOOL, mon.events.LINE, self._line)
        mon.set_events(self.TOOL, mon.events.LINE)

    def stop(self):
        mon = sys.monitoring
        mon.set_events(self.TOOL, 0)
        mon.register_callback(self.TOOL, mon.events.LINE, None)
        mon.free_tool_id(self.TOOL)

    def _line(self, code, line):
        if '/kneeliverse/' in code.co_filename:
            self.hit.add((code.co_filename, line))
        return sys.monitoring.DISABLE


def executable_lines(mods):
    out = {}
    for short, qual, f in link.package_functions(mods):
        lines = set()
        for c in link._codes(f.__code__):
            lines.update(l for (_, _, l) in c.co_lines() if l is not None)
        lines.discard(f.__code__.co_firstlineno)
        out[(short, qual)] = (f.__code__.co_filename, lines)
    return out


# --------------------------------------------------------------------------- module API

STATE = {}


CCW_WRAP = [0]      # calls of convex_hull._ccw on integer-typed points whose int64 value differs from the exact integer one


def _install_ccw_probe(mods):
    """The open finding F-2 is ONE mechanism: the orientation predicate convex_hull._ccw wraps in int64.  The probe observes
    every call of the predicate and counts the calls that really wrapped, so that an int64-only deviation of a hull routine
    is attributed to the finding only when the predicate wrapped during that very call - any other int64 deviation in the
    same functions is a different violation and is reported under the plain representation key."""
    ch = mods['convex_hull']
    orig = ch._ccw
    if getattr(orig, '_kneemon_probe', False):
        return

    def _ccw(a, b, c):
        r = orig(a, b, c)
        try:
            if all(getattr(getattr(v, 'dtype', None), 'kind', '') == 'i' for v in (a, b, c)):
                ax, ay, bx, by, cx, cy = int(a[0]), int(a[1]), int(b[0]), int(b[1]), int(c[0]), int(c[1])
                if (bx - ax) * (cy - ay) - (cx - ax) * (by - ay) != int(r):
                    CCW_WRAP[0] += 1
        except Exception:
            pass
        return r
    _ccw._kneemon_probe = True
    _ccw.__module__ = orig.__module__
    _ccw.__wrapped__ = orig
    ch._ccw = _ccw


HULL_USERS = ('convex_hull.', 'postprocessing.filter_clusters')


def setup(ctx, mods):
    _install_ccw_probe(mods)
    STATE['entries'] = entries(mods)
    STATE['raise'] = RaiseMonitor(ctx)
    STATE['raise'].start()
    STATE['defaults'] = mods['rdp'].min_point_rdp
    return {'loops': loops.standard(ctx, mods)}


def finish(ctx, mods):
    ctx.h('raise_events_in_package_frames', 'count', STATE['raise'].seen)
    STATE['raise'].stop()


def cases(rng, tier, shard, nshards):
    if shard == 0:
        yield {'kind': 'link'}
        yield {'kind': 'reach', 'seed': int(rng.integers(0, 2 ** 31))}
    total = META['quick_cases'] if tier == 'quick' else META['thorough_cases']
    for i in range(shard_count(total, shard, nshards)):
        integral = bool(rng.random() < 0.4)
        yield {'kind': 'scenario', 'seed': int(rng.integers(0, 2 ** 31)), 'integral': integral,
               'large': bool(integral and rng.random() < 0.25)}


def _defaults_digest(mods):
    """Digest of every mutable default argument (list / dict / set / ndarray) of every function of the package: a default
    that a call writes into is state shared by all later calls that rely on it."""
    fns = STATE.get('mutable_defaults')
    if fns is None:
        fns = []
        for short, qual, f in link.package_functions(mods):
            vals = list(getattr(f, '__defaults__', None) or ()) + list((getattr(f, '__kwdefaults__', None) or {}).values())
            if any(isinstance(v, (list, dict, set, np.ndarray)) for v in vals):
                fns.append(f)
        STATE['mutable_defaults'] = fns
    out = []
    for f in fns:
        for v in list(f.__defaults__ or ()) + list((f.__kwdefaults__ or {}).values()):
            if isinstance(v, dict):
                out.append(sorted((repr(k), repr(x)[:200]) for k, x in v.items()))
            elif isinstance(v, (list, set, np.ndarray)):
                out.append(v if not isinstance(v, set) else sorted(map(repr, v)))
    return argdigest(out)


def call(ctx, name, fn, view, quiet_hist=False):
    """('ok', result) or ('exc', ExceptionTypeName).  Link-type exceptions are recorded by the RAISE monitor;
    any other exception (or a loop-bound excess) is outside this property and only has to be representation-independent."""
    try:
        return 'ok', fn(view)
    except HarnessError:
        raise
    except LoopBoundExceeded as e:
        ctx.ood('entry', f'loop-bound-exceeded:{e.loopkey}')
        return 'exc', 'LoopBoundExceeded'
    except Exception as e:
        if not quiet_hist:
            ctx.h('entry_raised(outside C20 unless link-type)', f"{name.split('[')[0]}:{type(e).__name__}")
        return 'exc', type(e).__name__


PURE_FIELDS = ('P', 'PK', 'E', 'va', 'vb', 'rects', 'tri', 'Z', 'values', 'G', 'vn', 'PN', 'K', 'KR', 'reduced', 'removed', 'tlist', 'cmx')


def run_entry(ctx, mods, name, fn, scen, layouts):
    """Purity + determinism on the C view, then representation independence on the other layouts."""
    vc = scen.view('C')
    before = {k: argdigest(getattr(vc, k)) for k in PURE_FIELDS}
    dflt = _defaults_digest(mods)
    st1, r1 = call(ctx, name, fn, vc)
    changed = [k for k in PURE_FIELDS if before[k] != argdigest(getattr(vc, k))]
    short = name.split('[')[0]
    ctx.check(not changed, 'purity', f'purity:{short}', f'{name} modified its argument(s) {changed}',
              before=getattr(scen, changed[0]) if changed else None, after=getattr(vc, changed[0]) if changed else None)
    ctx.check(_defaults_digest(mods) == dflt, 'purity', f'purity-default:{short}', f'{name} modified a mutable default argument')
    # the arrays handed back belong to the caller: write into them before calling again (a memo or scratch buffer returned
    # without a copy would now hand the caller's edits back)
    scribbled = []
    if st1 == 'ok':
        fields = [getattr(vc, k) for k in PURE_FIELDS if isinstance(getattr(vc, k), np.ndarray)] + \
                 [getattr(scen, k) for k in PURE_FIELDS if isinstance(getattr(scen, k, None), np.ndarray)]
        for a in install._arrays(r1, []):
            if 0 < a.size <= 4096 and a.flags.writeable and a.dtype.kind in 'iuf' and not any(np.may_share_memory(a, f) for f in fields):
                scribbled.append((a, a.copy()))
    import copy
    r1_first = copy.deepcopy(r1) if scribbled else r1
    for a, c in scribbled:
        a[...] = c * (-3.0) + 7.0 if a.dtype.kind == 'f' else c + 1000003
    try:
        st2, r2 = call(ctx, name, fn, scen.view('C'))
        eq = st1 == st2 and (same(r1_first, r2, True)[0] if st1 == 'ok' else r1 == r2)
        r2 = copy.deepcopy(r2) if scribbled else r2
    finally:
        for a, c in scribbled:
            a[...] = c
    ctx.check(eq, 'determinism', f'determinism:{short}', f'{name} returned different results on identical arguments'
              + (' (the caller had written into the arrays returned by the first call)' if scribbled else ''),
              first=r1, second=r2)
    if st1 == 'ok' and r1 is not None and (not hasattr(r1, '__len__') or len(r1) > 0):
        ctx.nontriv(name, scen.P, scen.K, scen.k, scen.t)
    if scen.probe_rng.random() < 0.3:
        # stale-state probe: the caller's buffers (same objects, shapes, addresses) first hold ANOTHER valid input, then
        # are refilled with this scenario's values; the second call must equal the call on a fresh C-ordered copy
        call(ctx, name, fn, scen.view('reuse', alt=True))
        sts, rs = call(ctx, name, fn, scen.view('reuse'))
        if sts == st1:
            eq_ = (same(r1, rs, False)[0] if st1 == 'ok' else r1 == rs)
            ctx.check(eq_, 'representation', f'representation:{short}:reused-buffer',
                      f'{name}: a call on buffers that previously held another input differs from the call on a fresh copy of the same values',
                      c_result=r1, reused_result=rs)
    FIRST[name] = (st1, r1)
    agree = {}
    for lay in layouts:
        vl = scen.view(lay)
        before_l = {k: argdigest(getattr(vl, k)) for k in PURE_FIELDS}
        wraps0 = CCW_WRAP[0]
        stl, rl = call(ctx, name, fn, vl)
        # purity in every representation: a function that copies C-ordered input may still write into an array that is
        # already in the layout / dtype it converts to
        changed_l = [k for k in PURE_FIELDS if before_l[k] != argdigest(getattr(vl, k))]
        ctx.check(not changed_l, 'purity', f'purity:{short}:{lay}', f'{name} modified its argument(s) {changed_l} in the {lay} representation')
        # mechanism classifier: values of magnitude ~1e10, only the int64 representation deviates, the float64 ones agree
        overflow_class = scen.large and lay == 'i64' and all(agree.values())
        if overflow_class and short.startswith(HULL_USERS) and CCW_WRAP[0] == wraps0:
            overflow_class = False       # the orientation predicate did not wrap in this call: not the listed mechanism
        if short.startswith(HULL_USERS) and lay == 'i64':
            ctx.h('ccw_int64_wraps_during_call', 'some' if CCW_WRAP[0] > wraps0 else 'none')
        kname = f'representation:int64-overflow:{short}' if overflow_class else f'representation:{short}:{lay}'
        if st1 != stl or st1 == 'exc':
            agree[lay] = (st1 == stl and r1 == rl)
            ctx.check(st1 == stl and r1 == rl, 'representation', kname,
                      f'{name}: C representation -> {st1} {r1 if st1 == "exc" else ""}, {lay} representation -> {stl} {rl if stl == "exc" else ""}',
                      layout=lay)
            continue
        RAW[0] = 0.0
        eq, ulp = same(r1, rl, False)
        ctx.mx(f'max_ulp_above_cancellation_floor:{lay}', ulp)
        if eq:
            ctx.mx(f'max_raw_ulp_accepted:{lay}', RAW[0])
        if ulp > 0:
            ctx.h('float_diff_between_layouts', f'{short}:{lay}')
        agree[lay] = eq
        ctx.check(eq, 'representation', kname,
                  f'{name} returns different results for the {lay} representation of the same values'
                  + (' (integral values of magnitude ~1e10: int64 products wrap around)' if overflow_class else ''),
                  c_result=r1, other_result=rl, layout=lay)


FIRST = {}


def needle_points(rng):
    """Integral planar points of magnitude 3e7..9e7 containing a triple whose orientation determinant is exactly -1 / +1,
    while every product of two coordinate differences stays below 2**53: the int64 and the float64 evaluation of any
    orientation predicate are both exact, so the two representations must give the same hull - unless the code treats
    the dtypes differently."""
    k = int(rng.integers(28_000_000, 46_000_000))
    pts = [(0, 0), (k, k + 1), (2 * k + 1, 2 * k + 3)]          # det((k,k+1),(2k+1,2k+3)) = -1
    mirrored = bool(rng.random() < 0.5)
    if mirrored:
        pts = [(x, y) for (y, x) in pts]                       # mirrored: determinant +1
    lim = 2 * k
    want = int(rng.integers(5, 9))
    while len(pts) < want:
        # the other points lie on the far side of the needle's long edge, so that the middle point of the needle is a
        # hull vertex exactly when the +-1 turn is seen
        a_, b_ = int(rng.integers(2_000_000, lim)), int(rng.integers(0, lim))
        lo, hi = sorted((a_, b_))
        if hi - lo < 1_000_000:
            continue
        q = (lo, hi) if mirrored else (hi, lo)
        # generic extra points: far from every line through two existing points (huge determinants)
        if all(abs((b[0] - a[0]) * (q[1] - a[1]) - (q[0] - a[0]) * (b[1] - a[1])) > 1e12
               for i, a in enumerate(pts) for b in pts[i + 1:]) and q not in pts:
            pts.append(q)
    order = rng.permutation(len(pts))
    return np.array([pts[i] for i in order], dtype=float)


def run_history(ctx, mods, scen, base_err):
    """'returns identical results when called again' with a history in between: after every entry point has been called on
    this scenario in all representations, each one is called on a degenerate input of the same shapes (constant curve,
    constant vectors) and then once more on the original C-ordered arguments; the outcome must equal the first one.  A
    function that leaves process-wide state behind (NumPy's floating-point error mode, a module-level cache or scratch
    buffer) changes what later, identical calls return."""
    culprit = None
    for name, fn in STATE['entries'].items():
        call(ctx, name + '[flat]', fn, scen.view('C', flat=True), quiet_hist=True)
        if culprit is None and np.geterr() != base_err:
            culprit = name
    if culprit:
        ctx.h('numpy_errstate_left_changed_by', culprit.split('[')[0])
    for name, fn in STATE['entries'].items():
        if name not in FIRST:
            continue
        st1, r1 = FIRST[name]
        st, r = call(ctx, name, fn, scen.view('C'), quiet_hist=True)
        short = name.split('[')[0]
        eq = st1 == st and (same(r1, r, True)[0] if st1 == 'ok' else r1 == r)
        ctx.check(eq, 'determinism', f'determinism:{short}:after-history',
                  f'{name} returned a different outcome when called again on identical arguments after other calls '
                  f'(first: {st1} {r1 if st1 == "exc" else ""}; again: {st} {r if st == "exc" else ""})'
                  + (f'; np.geterr() was left changed by {culprit}: {np.geterr()}' if culprit else ''),
                  first=r1 if st1 == 'ok' else None, again=r if st == 'ok' else None)
    if np.geterr() != base_err:
        np.seterr(**base_err)       # keep the rest of the shard judged under the interpreter's default mode


def run_case(ctx, mods, case):
    kind = case['kind']
    if kind == 'link':
        findings, nfunc = link.run(mods)
        ctx.ok('link:functions', nfunc)
        for f in findings:
            ctx.violation('link', f"link:{f['site']}:{f['kind']}", f"{f['site']}: {f['detail']}")
        ctx.sample({'link_monitor': {'functions_examined': nfunc, 'findings': findings}})
        return
    rng = np.random.default_rng(case['seed'])
    if kind == 'reach':
        run_reach(ctx, mods, rng)
        return
    scen = Scenario(rng, mods, case['integral'])
    if case.get('large'):
        scen.enlarge(mods)
    elif case['integral'] and scen.probe_rng.random() < 0.3:
        scen.G = needle_points(scen.probe_rng)
        ctx.h('point_set', 'needle (determinant +-1, all products exact in both dtypes)')
    layouts = ['F', 'view'] + (['i64'] if case['integral'] else [])
    ctx.h('scenario', f"{'integral-large' if case.get('large') else ('integral' if case['integral'] else 'float')}/{scen.family}")
    if scen.aniso:
        ctx.h('point_set', 'anisotropic large int64 (x in multiples of 2^31, small y)')
    FIRST.clear()
    base_err = np.geterr()
    for name, fn in STATE['entries'].items():
        run_entry(ctx, mods, name, fn, scen, layouts)
    run_history(ctx, mods, scen, base_err)
    ctx.sample({'family': scen.family, 'integral': scen.integral, 'n': scen.n, 'points_head': scen.P[:5], 'knees': scen.K,
                'entry_points': len(STATE['entries']), 'layouts': ['C'] + layouts}, cap=3)


def run_reach(ctx, mods, rng):
    """Call every public function once under a line-coverage monitor; report what was reached."""
    cov = Coverage()
    execl = executable_lines(mods)
    cov.start()
    try:
        for integral in (False, True):
            scen = Scenario(rng, mods, integral)
            for name, fn in STATE['entries'].items():
                call(ctx, name, fn, scen.view('C'))
        for mod in mods.values():           # the enums' own __str__ methods
            for obj in vars(mod).values():
                if isinstance(obj, type) and issubclass(obj, __import__('enum').Enum) and obj.__module__ == mod.__name__:
                    for member in obj:
                        str(member)
        scen = Scenario(rng, mods, False)
        v = scen.view('C')
        cwd = os.getcwd()
        tmp = tempfile.mkdtemp(prefix='kneemon-plot-')
        try:
            os.chdir(tmp)
            os.mkdir('img')
            call(ctx, 'rdp.plot_frame', lambda v_: mods['rdp'].plot_frame(v_.P, v_.reduced, 0), v)
        finally:
            os.chdir(cwd)
            import shutil
            shutil.rmtree(tmp, ignore_errors=True)
        call(ctx, 'evaluation.compute_global_segment_cost',
             lambda v_: mods['evaluation'].compute_global_segment_cost(v_.P, v_.reduced), v)
    finally:
        cov.stop()
    total = hit = 0
    unreached = []
    jitted = {n for n, o in vars(mods['metrics']).items() if hasattr(o, 'py_func')}
    for (short, qual), (fname, lines) in sorted(execl.items()):
        if short == 'metrics' and qual in jitted:
            ctx.h('numba_compiled(observed at call boundary only)', f'{short}.{qual}')
            continue
        h = sum(1 for l in lines if (fname, l) in cov.hit)
        total += len(lines)
        hit += h
        if lines and h == 0:
            unreached.append(f'{short}.{qual}')
        elif lines and h < len(lines):
            ctx.h('partially_reached_functions', f'{short}.{qual}:{h}/{len(lines)}')
    ctx.mx('reach_line_coverage_pct', 100.0 * hit / max(total, 1))
    for u in unreached:
        ctx.h('unreached_functions', u)
    ctx.ok('reach')
