"""C12 - cluster filtering keeps one best-ranked knee per cluster."""
import numpy as np

from .. import gen, install, loops
from ..common import EPS, LINKAGES, pick, shard_count
from . import c11, c18

LD = np.longdouble

META = {
    'refill': True,      # cases presented in a reused buffer are followed by a refill of that buffer (runner)
    'rule': ('cases = one long trace per shard 0-5 (18000..33000 points, period-2 ripple, one cluster spanning 9000..20000 points) + curve (all families, plateau-rich ones over-weighted, n 6..60, thorough to 400) x interior knee subset of '
             'size 2..12 x 4 linkages x t = 10^U(-2.5,0) x ranking mode in {left, linear, right, hull} + the corner variant; the '
             'monitor on filter_clusters / filter_clusters_corners recomputes the clusters with the saved linkage, the scores with '
             'the saved smooth_ranking / rank_corners_triangle (selection clause, ties within 1e-12 accepted, NaN scores rejected) '
             'and, on well-conditioned windows, an independent long-double model of fit x weight. distinct = digest(curve, knees, '
             'linkage, t, mode); non-trivial = at least one cluster with >= 2 members whose scores are not all equal'),
    'require': {'one-per-cluster': 1500, 'best-ranked': 800, 'score-model': 800, 'hull': 500, 'corners': 500, 'nontrivial': 600},
    'scale': {'quick': 1, 'thorough': 450},
    'quick_cases': 15000, 'thorough_cases': 2400000,
    'assumptions': ['clusters are recomputed with the library\'s own linkage functions (C11 decides those)',
                    'the lower hull is recomputed with the saved graham_scan_lower, and that result is checked against the hull definition with the chain monitor of C18',
                    'fit of a window with <= 2 points or constant y is 1 (a horizontal line fits exactly)'],
}

MODES = ['left', 'linear', 'right', 'hull']


def pearson2(x, y):
    """Squared Pearson correlation, two-pass long double; (value, well-conditioned?)."""
    if len(x) <= 2:
        return 1.0, True
    x = np.asarray(x, dtype=LD)
    y = np.asarray(y, dtype=LD)
    dx, dy = x - np.mean(x), y - np.mean(y)
    sxx, syy = np.sum(dx * dx), np.sum(dy * dy)
    if syy == 0:
        return 1.0, True
    scale = float(np.max(np.abs(y))) ** 2 * len(y)
    well = float(syy) > 1e-6 * scale and float(sxx) > 0
    # float64 centring error of np.corrcoef: the mean of x carries an absolute error ~eps*|x|max, which perturbs
    # r^2 by ~(eps*|x|max/std(x))^2 relative (matters for large-origin x such as time stamps)
    if float(sxx) > 0:
        c = (EPS * float(np.max(np.abs(x))) / float(np.sqrt(sxx / len(x)))) ** 2 \
            + (EPS * float(np.max(np.abs(y))) / float(np.sqrt(syy / len(y)))) ** 2
        COND[0] = max(COND[0], c)
    return float(np.sum(dx * dy) ** 2 / (sxx * syy)), well


COND = [0.0]


def score_model(pts, cluster, mode):
    x, y = pts[:, 0], pts[:, 1]
    j = int(cluster[0])
    last = int(cluster[-1])
    peak = float(np.max(y[cluster]))
    fits, well = [], True
    for k in cluster:
        k = int(k)
        fl, wl = pearson2(x[j:k + 1], y[j:k + 1])
        fr, wr = pearson2(x[k:last], y[k:last])
        if mode == 'left':
            f, w = fl, wl
        elif mode == 'right':
            f, w = fr, wr
        else:
            f, w = (fl + fr) / 2.0, wl and wr
        fits.append(f)
        well = well and w
    wts = np.array([abs(peak - float(y[int(k)])) for k in cluster])
    s = wts.sum()
    if s != 0:
        wts = wts / s
    return np.array(fits) * wts, well


def _clusters(mods, pts, knees, linkage, t, ctx=None):
    name = linkage.__name__ if callable(linkage) else linkage
    f = install.orig('clustering', name)
    sub = pts[knees]
    lab = f(sub, t)
    if ctx is not None and c11._domain(sub, t) is None and name in c11_names():
        # the shared clustering primitive against its stated threshold rule (C11's decision monitor)
        if c11.labels_ok(ctx, name, len(sub), lab, t):
            c11.check_decisions(ctx, name, np.asarray(sub), t, lab)
    return np.asarray(lab)


def c11_names():
    return ('single_linkage', 'complete_linkage', 'centroid_linkage', 'average_linkage')


def setup(ctx, mods):
    kr = mods['knee_ranking']

    def post_filter(ctx, original, args, kwargs, result):
        a = {'t': 0.01, 'method': kr.ClusterRanking.linear}
        a.update(dict(zip(['points', 'knees', 'clustering', 't', 'method'], args)))
        a.update(kwargs)
        pts, knees, t, mode = a['points'], np.asarray(a['knees']), a['t'], a['method'].value
        link = getattr(a['clustering'], '__name__', '?')
        if len(knees) <= 1:
            ctx.ood('one-per-cluster', 'fewer-than-2-knees')
            return
        n = len(pts)
        if not (np.all(np.diff(knees) > 0) and knees[0] >= 1 and knees[-1] <= n - 2):
            ctx.ood('one-per-cluster', 'knees-not-interior-ascending')
            return
        res = np.asarray(result)
        labels = _clusters(mods, pts, knees, a['clustering'], t, ctx)
        kset = set(knees.tolist())
        sub = res.ndim == 1 and all(int(v) in kset for v in res) and bool(np.all(np.diff(res) > 0))
        if not ctx.check(sub, 'subset', f'filter:subset:{mode}',
                         f'filter_clusters({mode}) result {res.tolist()[:30]} is not a strictly increasing subset of the knees {knees.tolist()[:30]}',
                         linkage=link, t=t):
            return
        members = {int(c): knees[labels == c] for c in np.unique(labels)}
        chosen = {c: [int(v) for v in res if int(v) in set(m.tolist())] for c, m in members.items()}
        if mode != 'hull':
            bad = [c for c, ch in chosen.items() if len(ch) != 1]
            ctx.check(not bad, 'one-per-cluster', f'filter:one-per-cluster:{mode}',
                      f'clusters {bad[:6]} do not have exactly one surviving member (result {res.tolist()[:30]}, labels {labels.tolist()[:30]})',
                      linkage=link, t=t)
            smooth = install.orig('knee_ranking', 'smooth_ranking')
            for c, m in members.items():
                if len(m) < 2 or len(chosen[c]) != 1:
                    continue
                scores = np.asarray(smooth(pts, m, a['method']), dtype=float)
                if np.any(np.isnan(scores)):
                    ctx.violation('best-ranked', f'filter:nan-score:{mode}',
                                  f'cluster {m.tolist()} has NaN ranking scores {scores.tolist()}: a NaN has no rank (argsort puts it last, i.e. it wins)',
                                  linkage=link, t=t, chosen=chosen[c])
                    continue
                pick_ = int(np.where(m == chosen[c][0])[0][0])
                best = float(scores.max())
                ctx.check(scores[pick_] >= best - 1e-12 * abs(best) - 1e-300, 'best-ranked', f'filter:not-best:{mode}',
                          f'cluster {m.tolist()} keeps {chosen[c][0]} with score {float(scores[pick_])!r}; member {int(m[int(np.argmax(scores))])} scores {best!r}',
                          linkage=link, t=t, scores=scores)
                COND[0] = 0.0
                model, well = score_model(pts, m, mode)
                if well and COND[0] < 1e-7 and np.all(np.isfinite(model)):
                    err = float(np.max(np.abs(model - scores)))
                    tol = (1e-9 + 64 * COND[0]) * float(np.max(np.abs(model))) + 64 * EPS
                    ctx.mx('score_err_over_tol', err / tol)
                    ctx.check(err <= tol, 'score-model', f'ranking:model:{mode}',
                              f'smooth_ranking({mode}) on cluster {m.tolist()} gives {scores.tolist()}, fit x weight model gives {model.tolist()}',
                              linkage=link, t=t)
                else:
                    ctx.ood('score-model', 'ill-conditioned-window')
                if float(scores.max()) - float(scores.min()) > 1e-12:
                    STATE['nontrivial'] = True
        else:
            lib_hull = install.orig('convex_hull', 'graham_scan_lower')(pts)
            c18.check_chain(ctx, 'lower', pts, lib_hull)      # the shared hull primitive against the hull's definition
            hull = set(int(v) for v in lib_hull)
            bad = [c for c, ch in chosen.items() if len(ch) > 1]
            ctx.check(not bad, 'hull', 'filter:hull:more-than-one',
                      f'clusters {bad[:6]} keep more than one member in hull mode (result {res.tolist()[:30]})', linkage=link, t=t)
            for c, m in members.items():
                lo, hi = int(m[0]), int(m[-1])
                has_hull = any(lo <= h <= hi for h in hull)
                if not has_hull:
                    ctx.check(len(chosen[c]) == 0, 'hull', 'filter:hull:cluster-without-hull-point',
                              f'cluster {m.tolist()} spans no lower-hull point but {chosen[c]} survives', linkage=link, t=t)
                else:
                    ctx.ok('hull')
                if len(m) >= 2 and has_hull:
                    STATE['nontrivial'] = True

    def post_corners(ctx, original, args, kwargs, result):
        a = {'t': 0.01}
        a.update(dict(zip(['points', 'knees', 'clustering', 't'], args)))
        a.update(kwargs)
        pts, knees, t = a['points'], np.asarray(a['knees']), a['t']
        n = len(pts)
        if len(knees) < 1 or not (np.all(np.diff(knees) > 0) and knees[0] >= 1 and knees[-1] <= n - 2):
            ctx.ood('corners', 'knees-not-interior-ascending')
            return
        res = np.asarray(result)
        labels = _clusters(mods, pts, knees, a['clustering'], t, ctx)
        members = {int(c): knees[labels == c] for c in np.unique(labels)}
        okshape = res.ndim == 1 and len(res) == len(members) and bool(np.all(np.diff(res) > 0))
        if not ctx.check(okshape, 'corners', 'corners:one-per-cluster',
                         f'filter_clusters_corners returned {res.tolist()[:30]} for {len(members)} clusters'):
            return
        tri = install.orig('postprocessing', 'rank_corners_triangle')
        for (c, m), keep in zip(sorted(members.items()), res):
            if int(keep) not in set(m.tolist()):
                ctx.violation('corners', 'corners:one-per-cluster', f'{int(keep)} is not a member of cluster {m.tolist()}')
                continue
            sc = np.asarray(tri(pts, m), dtype=float)
            pf = np.asarray(pts, dtype=float)      # the definition over the reals: never in a wrapping integer dtype
            indep = np.array([0.5 * ((pf[k][0] - pf[k - 1][0]) * (pf[k][1] - pf[k + 1][1])) for k in m.tolist()], dtype=float)
            ctx.check(np.array_equal(sc, indep), 'corners', 'corners:triangle-score',
                      f'rank_corners_triangle {sc.tolist()} != 0.5*(x_k-x_k-1)*(y_k-y_k+1) {indep.tolist()}')
            p = int(np.where(m == int(keep))[0][0])
            ctx.check(indep[p] >= indep.max(), 'corners', 'corners:not-best',
                      f'cluster {m.tolist()} keeps {int(keep)} with corner score {float(indep[p])!r}, maximum is {float(indep.max())!r}',
                      scores=indep)
            if len(m) >= 2 and indep.max() > indep.min():
                STATE['nontrivial'] = True

    install.monitor(ctx, 'postprocessing', 'filter_clusters', post_filter)
    install.monitor(ctx, 'postprocessing', 'filter_clusters_corners', post_corners)
    return {'loops': loops.standard(ctx, mods)}


STATE = {'nontrivial': False}


def cases(rng, tier, shard, nshards):
    total = META['quick_cases'] if tier == 'quick' else META['thorough_cases']
    fams = gen.FAMILIES + ['smallint', 'stairs', 'smallint', 'mrc']
    if shard < 6 or tier == 'thorough':
        # a full trace handed to the filter (tens of thousands of points, a fine ripple on top, narrow spikes): the ranked
        # segments span thousands of points, where subsampled / blocked evaluation of the scores would show
        pts = gen.long_spiky(rng, nlo=18000, nhi=33000)
        if rng.random() < 0.6:
            pts[:, 1] += np.where(np.arange(len(pts)) % 2 == 0, 0.0, float(rng.uniform(2.0, 30.0)))
        n = len(pts)
        # one cluster (t = 1 joins every knee under all four linkages) whose members lie 9000..20000 points apart
        span = int(rng.integers(9000, min(n - 200, 20000)))
        a0 = int(rng.integers(50, n - span - 50))
        knees = np.unique(np.concatenate(([a0, a0 + span], rng.integers(a0, a0 + span, int(rng.integers(1, 5))))))
        yield {'points': pts, 'family': 'long-trace', 'layout': 'C', 'knees': knees.astype(int), 'linkage': pick(rng, LINKAGES),
               't': 1.0, 'mode': pick(rng, [m for m in MODES if m != 'hull'])}
    for i in range(shard_count(total, shard, nshards)):
        r = rng.random()
        if tier == 'thorough' and r < 0.03:
            pts, meta = gen.curve(rng, nmax=400, nmin=60, family=pick(rng, fams))
        else:
            pts, meta = gen.curve(rng, nmax=60, nmin=6, family=pick(rng, fams))
        if len(pts) < 6:
            pts, meta = gen.curve(rng, nmax=60, nmin=6, family='mrc')
        lay = None
        if rng.random() < 0.04:
            # integral coordinates of magnitude 1e9..1e10 as int64 (products of two coordinate differences do not fit int64)
            pts, meta, lay = gen.large_int_curve(rng, nmax=40, n=None), {'family': 'large-int64'}, 'i64'
            if len(pts) < 6:
                pts = gen.large_int_curve(rng, n=12)
        n = len(pts)
        tie = None
        if lay is None and rng.random() < 0.04:
            # an even, non-dyadic grid (x = 0.1*i, i/3, ...) with evenly spaced knees and t equal to one normalised gap as the
            # linkage computes it: every decision is an exact tie, so the clusters depend on the very float values handed over
            n = int(rng.integers(14, 60))
            step = float(pick(rng, [0.1, 1.0 / 3.0, 0.7, 0.05, 1e-3]))
            pts = np.ascontiguousarray(np.column_stack((np.arange(n) * step + float(pick(rng, [0.0, 0.0, 0.3, 10.1])), pts[:1, 1][0] + np.sort(rng.random(n))[::-1] * 5.0)))
            meta = {'family': 'decimal-grid'}
            g = int(rng.integers(1, 4))
            k0 = int(rng.integers(1, 4))
            tie = np.arange(k0, n - 1, g)[:int(rng.integers(3, 9))]
        knees = gen.knee_subset(rng, n, kmin=2, kmax=12) if tie is None or len(tie) < 3 else tie
        if rng.random() < 0.4 and n > 12:     # tight groups so that multi-member clusters are common
            start = int(rng.integers(1, n - 8))
            knees = np.unique(np.concatenate((knees, np.arange(start, min(start + int(rng.integers(2, 6)), n - 1)))))
        c = {'points': pts, 'family': meta['family'], 'layout': lay or gen.pick_layout(rng, pts), 'knees': knees.astype(int),
             'linkage': pick(rng, LINKAGES),
             't': float(10.0 ** rng.uniform(-2.5, 0)) if rng.random() < 0.92 else float(pick(rng, [1.0, 0.5, 0.25, 1.5, 2.0])),
             'mode': pick(rng, MODES + ['corners'])}
        if tie is not None and len(tie) >= 3:
            kx = np.asarray(pts[knees.astype(int), 0], dtype=float)
            j = int(rng.integers(1, len(kx)))
            c['t'] = float(abs(kx[j] - kx[j - 1]) / (kx[-1] - kx[0])) * float(pick(rng, [1.0, 1.0, 1.0, 2.0]))
            c['layout'] = 'C'
        if lay == 'i64' and c['mode'] == 'hull':
            c['mode'] = 'linear'      # the hull predicate wraps in int64 at this magnitude: known finding F-2 (C20)
        if lay is None and rng.random() < 0.3:      # history: another ranking mode / linkage / knee subset on the SAME array
            k2 = knees if rng.random() < 0.5 else gen.knee_subset(rng, n, kmin=2, kmax=12)
            c['follow'] = {'knees': np.asarray(k2).astype(int), 'linkage': pick(rng, LINKAGES),
                           't': float(10.0 ** rng.uniform(-2.5, 0)), 'mode': pick(rng, MODES + ['corners'])}
        yield c


def run_case(ctx, mods, case):
    pts = gen.present(case['points'], case['layout'])
    run_step(ctx, mods, case, pts, case)
    if case.get('follow'):
        ctx.h('history', 'follow-up call on the same array')
        run_step(ctx, mods, case, pts, dict(case['follow'], points=case['points'], family=case['family']))


def run_step(ctx, mods, parent, pts, case):
    pp, kr, cl = mods['postprocessing'], mods['knee_ranking'], mods['clustering']
    knees = np.asarray(case['knees'], dtype=int)
    link = getattr(cl, case['linkage'])
    STATE['nontrivial'] = False
    mode = case['mode']
    if mode == 'corners':
        ok, res = install.guarded(ctx, 'complete:postprocessing.filter_clusters_corners', pp.filter_clusters_corners, pts, knees, link, case['t'])
    else:
        ok, res = install.guarded(ctx, f'complete:postprocessing.filter_clusters:{mode}', pp.filter_clusters, pts, knees, link, case['t'],
                                  kr.ClusterRanking(mode))
    if not ok:
        return
    ctx.h('mode_x_linkage', f"{mode}/{case['linkage']}")
    ctx.h('kept_of', f'{len(res)}/{len(knees)}' if len(knees) <= 6 else f'{len(res)}/7+')
    if STATE['nontrivial']:
        ctx.nontriv(case['points'], knees, case['linkage'], case['t'], mode)
        ctx.sample({'family': case['family'], 'n': len(pts), 'knees': knees, 'linkage': case['linkage'], 't': case['t'],
                    'mode': mode, 'result': np.asarray(res), 'points_head': case['points'][:6]})
