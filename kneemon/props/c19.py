"""C19 - knee-evaluation scores obey their accounting identities (DESIGN.md section 4, C19).

Postcondition monitors on evaluation.cm / mae / mse / rmse / rmspe / accuracy / f1score / mcc
(module attributes: the mse call made inside rmse is seen as well).

Oracles
* cm: TP + FN = |E|, TP + FP = |K|, entries sum to n (exact integer identities) and TP = the
  executable greedy matching: each expected point, in order, claims its x-nearest knee
  (first index on exactly equal distances) when the distance is within t times the x range
  (<=) and the knee is still unclaimed.  Rounding policy (DESIGN section 3, exact-arithmetic
  rule): the threshold decision is taken twice - in exact rational arithmetic
  (|kx - px| <= t * (xmax - xmin)) and as a replay of the IEEE operations
  (fl(fl|kx - px| / fl(xmax - xmin)) <= t); where the two disagree, or where the nearest knee
  is decided by a relative margin below 1e-12, the TP clause gives no verdict for that call
  (out-of-domain count) and only the identities are asserted.
* mae / mse / rmse / rmspe: >= 0, rmse = sqrt(mse), exactly 0 when the expected set is exactly
  the set of knee points, and equal (rtol 1e-9 + data-derived floor) to the nearest-neighbour
  model iterated from the side the strategy selects: knees / expected / best = the smaller
  side / worst = the larger side.  The statement does not say which side best / worst take on
  equal sizes, so there the value of either side is accepted.  Nearest neighbour = Euclidean,
  first index on exact ties (asserted only where the squared distances are exact in binary64:
  coordinates multiples of 2^-10 below 2^9); any other near tie (1e-9) gives no numeric verdict.
* accuracy, F1 in [0,1]; MCC in [-1,1] where its denominator is non-zero; all three = 1 on a
  perfect detection (FP = FN = 0).  Large-count class: integer matrices with n >= 1e5.
"""
import math
from fractions import Fraction

import numpy as np

from .. import gen, install
from ..common import EPS, pick, shard_count

T_VALUES = [0.0, 0.01, 0.05, 0.2, 1.0]
STRATEGIES = ['knees', 'expected', 'best', 'worst']
ERRFNS = ['mae', 'mse', 'rmse', 'rmspe']
E_KINDS = ['exact', 'exact-shuffled', 'jitter', 'arbitrary', 'dup', 'mixed', 'edge', 'midpoint']
LARGE = 100000
RTOL = 1e-9

META = {
    'rule': ('curve cases = the 12 generic curve families (n 3..60) plus integer-grid curves (x range 16/20/32/64/100, '
             'dyadic y) x {C,F,view,int64} layout x ascending distinct knee indices from 0..n-1 x expected sets of 8 '
             'kinds (exact knee points, shuffled, jittered curve points, arbitrary points, several points claiming '
             'one knee, knee points mixed with far points, points at kx +- t*range, midpoints between knees) with '
             '|K|+|E| <= n, each driven through cm for t in {0,.01,.05,.2,1} (+ accuracy/f1score/mcc on every '
             'matrix) and mae/mse/rmse/rmspe x 4 strategies; large-count class = int64 matrices '
             '[[tp,k-tp],[k-tp,n-2k+tp]] with n in 1.4e5..1e6, k up to 4e4 (perfect, empty, random tp) passed to '
             'the three scores, and in thorough cm + scores on the web2 trace (139 907 points, k = 2e4..4e4); '
             'distinct = digest(curve, knees, expected, t); non-trivial = cm call with 0 < TP < |E|'),
    'require': {'cm:tp': 16000, 'cm:identity': 16000,
                'err:mae': 12000, 'err:mse': 24000, 'err:rmse': 12000, 'err:rmspe': 12000,
                'err:sqrt': 13000, 'err:nonneg': 65000, 'err:zero': 16000,
                'score:accuracy': 18000, 'score:f1': 18000, 'score:mcc': 18000, 'score:perfect': 14000,
                'large-count': 4800, 'large-perfect': 1400,
                'cm-tie': 7000, 'cm-tie-pos': 800, 'dup-claim': 5000, 'nearest-tie': 1800,
                'strategy-unequal': 21000, 'nontrivial': 7000},
    'scale': {'quick': 1, 'thorough': 20},
    'quick_cases': 10000, 'thorough_cases': 200000,
    'quick_matrices': 4800, 'thorough_matrices': 96000,
    'timeout': {'quick': 900, 'thorough': 3600},
    'assumptions': ['on exactly equal x distances the first knee (np.argmin) is the claimed one; on exactly equal '
                    'Euclidean distances the first point is the nearest neighbour',
                    'for Strategy.best / Strategy.worst with |K| = |E| the statement does not fix the iterated side: '
                    'the value of either side is accepted',
                    'threshold / nearest decisions inside a 1e-12 relative band (or where the exact and the replayed '
                    'IEEE decision differ) give no verdict on TP; near-tied nearest neighbours outside the '
                    'exact-arithmetic class give no numeric verdict on the error metrics',
                    'MCC range / perfect-detection equality are asserted with an absolute slack of 1e-9 (the score '
                    'is a float quotient with a square root)'],
}


# ------------------------------------------------------------------ domain

def _num2d(a, minrows):
    try:
        A = np.asarray(a)
    except Exception:
        return None
    if A.ndim != 2 or A.shape[1] != 2 or len(A) < minrows or A.dtype.kind not in 'fiu':
        return None
    if not np.all(np.isfinite(A)):
        return None
    return A


def _domain(points, knees, expected):
    P = _num2d(points, 2)
    if P is None:
        return 'points'
    E = _num2d(expected, 1)
    if E is None:
        return 'expected'
    try:
        K = np.asarray(knees)
    except Exception:
        return 'knees'
    if K.ndim != 1 or K.size < 1 or K.dtype.kind not in 'iu':
        return 'knees-not-int-vector'
    if K.min() < 0 or K.max() >= len(P):
        return 'knees-out-of-range'
    if not np.all(np.diff(K) > 0):
        return 'knees-not-ascending-distinct'
    if len(K) + len(E) > len(P):
        return 'K+E>n'
    x = P[:, 0]
    if not (x.max() > x.min()):
        return 'x-range-zero'
    return P, K.astype(int), E


def _strategy_name(s):
    v = getattr(s, 'value', s)
    return v if v in STRATEGIES else None


def _dyadic(a, bound):
    a = np.asarray(a, dtype=float).ravel()
    s = a * 1024.0
    return bool(np.all(np.abs(a) < bound) and np.all(s == np.round(s)))


def _same_point_set(A, B):
    if A.shape != B.shape:
        return False
    A = np.asarray(A, dtype=float)
    B = np.asarray(B, dtype=float)
    ia = np.lexsort((A[:, 1], A[:, 0]))
    ib = np.lexsort((B[:, 1], B[:, 0]))
    return bool(np.array_equal(A[ia], B[ib]))


def _fr(v):
    if hasattr(v, 'item'):
        v = v.item()
    return Fraction(v)


# ------------------------------------------------------------------ cm: executable greedy matching

def cm_model(P, K, E, t):
    """(tp, None, info) or (None, reason, info): greedy one-to-one count by the statement's rule."""
    x = P[:, 0]
    xmax, xmin = x.max(), x.min()
    dx_f = math.fabs(xmax - xmin)
    kx = np.asarray(x[K], dtype=float)
    claimed = np.zeros(len(K), dtype=bool)
    tp = 0
    info = {'ties': 0, 'ties_pos': 0, 'dup': 0, 'nearest_ties': 0}
    range_exact = None
    tq = None
    for px in np.asarray(E[:, 0], dtype=float):
        d = np.abs(kx - px)
        j = int(np.argmin(d))
        m = d[j]
        near = np.flatnonzero(d <= m * (1.0 + 1e-9))
        if len(near) > 1:
            ex = [abs(_fr(kx[i]) - _fr(px)) for i in near]
            mm = min(ex)
            for e in ex:
                if e != mm and (e - mm) <= Fraction(1e-12) * e:
                    return None, 'nearest-knee-band', info
            j = int(near[[i for i, e in enumerate(ex) if e == mm][0]])
            if sum(1 for e in ex if e == mm) > 1:
                info['nearest_ties'] += 1
        # threshold: replayed IEEE decision, confirmed exactly when close
        qf = abs(float(kx[j]) - float(px)) / dx_f
        dec = bool(qf <= t)
        if abs(qf - t) <= 1e-9 * max(abs(t), abs(qf)):
            if range_exact is None:
                range_exact = _fr(xmax) - _fr(xmin)
                tq = Fraction(float(t))
            dec_exact = abs(_fr(kx[j]) - _fr(px)) <= tq * range_exact
            if dec_exact != dec:
                return None, 'threshold-band', info
            if qf == t:
                info['ties'] += 1
                info['ties_pos'] += int(t > 0.0)
        if dec:
            if not claimed[j]:
                claimed[j] = True
                tp += 1
            else:
                info['dup'] += 1
    return tp, None, info


def post_cm(ctx, original, args, kwargs, result):
    points = args[0] if len(args) > 0 else kwargs['points']
    knees = args[1] if len(args) > 1 else kwargs['knees']
    expected = args[2] if len(args) > 2 else kwargs['expected']
    t = args[3] if len(args) > 3 else kwargs.get('t', 0.01)
    dom = _domain(points, knees, expected)
    if isinstance(dom, str):
        ctx.ood('cm', dom)
        return
    try:
        t = float(t)
    except Exception:
        ctx.ood('cm', 't-not-a-number')
        return
    if not (math.isfinite(t) and t >= 0.0):
        ctx.ood('cm', 't-negative-or-nonfinite')
        return
    P, K, E = dom
    n, nk, ne = len(P), len(K), len(E)
    try:
        R = np.asarray(result)
        good = R.shape == (2, 2) and R.dtype.kind in 'iu'
    except Exception:
        good = False
    if not good:
        ctx.violation('cm:identity', 'cm:shape', f'cm did not return a 2x2 integer matrix: {result!r}', t=t)
        return
    tp, fp, fn, tn = int(R[0, 0]), int(R[0, 1]), int(R[1, 0]), int(R[1, 1])
    bad = []
    if tp + fn != ne:
        bad.append(f'TP+FN={tp + fn} != |E|={ne}')
    if tp + fp != nk:
        bad.append(f'TP+FP={tp + fp} != |K|={nk}')
    if tp + fp + fn + tn != n:
        bad.append(f'sum={tp + fp + fn + tn} != n={n}')
    ctx.check(not bad, 'cm:identity', 'cm:identity', 'cm accounting identity broken: ' + '; '.join(bad),
              cm=R, n=n, K=nk, E=ne, t=t)
    mtp, why, info = cm_model(P, K, E, t)
    if mtp is None:
        ctx.ood('cm:tp', why)
        return
    ctx.check(tp == mtp, 'cm:tp', 'cm:tp',
              f'TP={tp} but the greedy one-to-one matching gives {mtp} (|K|={nk} |E|={ne} t={t})',
              cm=R, model_tp=mtp, t=t, knees=K if nk <= 64 else K[:64], knee_x=P[K, 0][:64],
              expected_x=E[:64, 0], info=info)
    if info['ties']:
        ctx.ok('cm-tie', info['ties'])
    if info['ties_pos']:
        ctx.ok('cm-tie-pos', info['ties_pos'])
    if info['dup']:
        ctx.ok('dup-claim')
    if info['nearest_ties']:
        ctx.ok('nearest-tie')
    ctx.h('cm_class', ('perfect' if (mtp == ne == nk) else 'TP=0' if mtp == 0 else
                       'TP=|E|' if mtp == ne else '0<TP<|E|') + f'/t={t:g}')
    if 0 < mtp < ne and tp == mtp:
        ctx.nontriv(P, K, E, t)


# ------------------------------------------------------------------ error metrics: nearest-neighbour model

def nn_match(a, b, exact):
    """Index of the Euclidean nearest b for every a (first on exact ties), or None on an undecidable near tie."""
    out = []
    for p in a:
        df = b - p
        d2 = df[:, 0] * df[:, 0] + df[:, 1] * df[:, 1]
        j = int(np.argmin(d2))
        near = np.flatnonzero(d2 <= d2[j] * (1.0 + 4e-9))
        if len(near) > 1:
            rows = b[near]
            if np.all(rows == rows[0]):
                j = int(near[0])
            elif exact:
                ex = [(_fr(r[0]) - _fr(p[0])) ** 2 + (_fr(r[1]) - _fr(p[1])) ** 2 for r in rows]
                mm = min(ex)
                j = int(near[[i for i, e in enumerate(ex) if e == mm][0]])
            else:
                return None
        out.append(j)
    return out


def err_model(name, a, b, idx, eps):
    a = np.asarray(a, dtype=float)
    b = np.asarray(b, dtype=float)
    diff = a - b[idx]
    if name == 'mae':
        return math.fsum(np.abs(diff).ravel().tolist()) / (2.0 * len(a))
    if name == 'mse':
        return math.fsum((diff * diff).ravel().tolist()) / (2.0 * len(a))
    if name == 'rmse':
        return math.sqrt(math.fsum((diff * diff).ravel().tolist()) / (2.0 * len(a)))
    e = diff / (a + eps)
    return math.sqrt(math.fsum((e * e).ravel().tolist()) / (2.0 * len(a)))


def _sides(sname, KP, E):
    if sname == 'knees':
        return [('knees', KP, E)]
    if sname == 'expected':
        return [('expected', E, KP)]
    if len(E) == len(KP):
        return [('expected', E, KP), ('knees', KP, E)]
    small_is_e = len(E) < len(KP)
    if (sname == 'best') == small_is_e:
        return [('expected', E, KP)]
    return [('knees', KP, E)]


def _post_err(name):
    def post(ctx, original, args, kwargs, result):
        points = args[0] if len(args) > 0 else kwargs['points']
        knees = args[1] if len(args) > 1 else kwargs['knees']
        expected = args[2] if len(args) > 2 else kwargs['expected']
        s = args[3] if len(args) > 3 else kwargs.get('s', 'expected')
        eps = 1e-16
        if name == 'rmspe':
            eps = args[4] if len(args) > 4 else kwargs.get('eps', 1e-16)
        dom = _domain(points, knees, expected)
        if isinstance(dom, str):
            ctx.ood(f'err:{name}', dom)
            return
        sname = _strategy_name(s)
        if sname is None:
            ctx.ood(f'err:{name}', 'unknown-strategy')
            return
        P, K, E = dom
        KP = P[K]
        Ef = np.asarray(E, dtype=float)
        KPf = np.asarray(KP, dtype=float)
        sides = _sides(sname, KPf, Ef)
        if name == 'rmspe' and any(np.any(a + eps == 0.0) for _, a, _ in sides):
            ctx.ood('err:rmspe', 'p+eps==0')
            return
        try:
            got = float(result)
        except Exception:
            ctx.violation('err:nonneg', f'err:{name}-type', f'{name} did not return a number: {result!r}',
                          strategy=sname)
            return
        # ---- structural clauses
        ctx.check(got >= 0.0, 'err:nonneg', f'err:{name}-negative',
                  f'{name} = {got!r} is not >= 0 (strategy {sname})', strategy=sname, K=K, E=E[:40])
        if name == 'rmse':
            m = float(install.orig('evaluation', 'mse')(*args, **kwargs))
            ref = math.sqrt(m) if m >= 0 else float('nan')
            ctx.check(abs(got - ref) <= 1e-12 * max(abs(ref), abs(got)), 'err:sqrt', 'err:rmse-sqrt',
                      f'rmse = {got!r} != sqrt(mse) = {ref!r} (strategy {sname})', strategy=sname, mse=m)
        perfect = _same_point_set(KPf, Ef)
        if perfect:
            ctx.check(got == 0.0, 'err:zero', f'err:{name}-zero',
                      f'{name} = {got!r} although E is exactly the knee points (strategy {sname})',
                      strategy=sname, K=K, E=E[:40])
        # ---- numeric clause against the nearest-neighbour model
        allc = np.concatenate((KPf.ravel(), Ef.ravel()))
        exact = _dyadic(allc, 512.0)
        scale = float(np.max(np.abs(allc)))
        refs = []
        for label, a, b in sides:
            idx = nn_match(a, b, exact)
            if idx is None:
                ctx.ood(f'err:{name}', 'near-tied-nearest-neighbour')
                return
            refs.append((label, err_model(name, a, b, idx, eps)))
        if name == 'mae' or name == 'rmse':
            floor = 64.0 * EPS * scale
        elif name == 'mse':
            floor = 64.0 * EPS * scale * scale
        else:
            floor = 0.0
        if not all(math.isfinite(r) for _, r in refs):
            ctx.ood(f'err:{name}', 'model-overflow')
            return
        hit = [lab for lab, r in refs if abs(got - r) <= RTOL * abs(r) + floor]
        if hit and all(r > 0 for _, r in refs):
            ctx.mx(f'relerr:{name}', min(abs(got - r) / r for _, r in refs))
        ctx.check(bool(hit), f'err:{name}', f'err:{name}',
                  f'{name} = {got!r} but nearest-neighbour matching from the {"/".join(l for l, _ in refs)} side '
                  f'gives {[r for _, r in refs]} (strategy {sname}, |K|={len(K)} |E|={len(E)})',
                  strategy=sname, model=refs, K=K, knee_points=KP[:40], E=E[:40])
        ctx.h('strategy_side', f'{sname}->' + ('either(|K|=|E|)' if len(refs) > 1 else refs[0][0]))
        if sname in ('best', 'worst') and len(refs) == 1:
            ctx.ok('strategy-unequal')
        if exact:
            ctx.h('err_exact_class', name)
    return post


# ------------------------------------------------------------------ scores

def _matrix(cm):
    try:
        M = np.asarray(cm)
    except Exception:
        return None
    if M.shape != (2, 2) or M.dtype.kind not in 'iu':
        return None
    tp, fp, fn, tn = int(M[0, 0]), int(M[0, 1]), int(M[1, 0]), int(M[1, 1])
    if min(tp, fp, fn, tn) < 0 or tp + fp < 1 or tp + fn < 1:
        return None
    return tp, fp, fn, tn


def _post_score(name):
    def post(ctx, original, args, kwargs, result):
        m = _matrix(args[0] if args else kwargs['cm'])
        if m is None:
            ctx.ood(f'score:{name}', 'not-a-valid-confusion-matrix')
            return
        tp, fp, fn, tn = m
        total = tp + fp + fn + tn
        large = total >= LARGE
        sfx = ':large-count' if large else ''
        perfect = fp == 0 and fn == 0
        try:
            v = float(result)
        except Exception:
            ctx.violation(f'score:{name}', f'score:{name}-type', f'{name} returned {result!r}', cm=m)
            return
        if name == 'mcc':
            den = (tp + fp) * (tp + fn) * (tn + fp) * (tn + fn)
            if den == 0:
                ctx.ood('score:mcc', 'zero-denominator')
                return
            lo, slack = -1.0, 1e-9
        else:
            lo, slack = 0.0, 1e-12
        ctx.check(lo - slack <= v <= 1.0 + slack, f'score:{name}', f'score:{name}-range{sfx}',
                  f'{name} = {v!r} outside [{lo:g}, 1] for cm [[{tp},{fp}],[{fn},{tn}]]',
                  cm=[[tp, fp], [fn, tn]], value=v)
        if perfect:
            ctx.check(abs(v - 1.0) <= slack, 'score:perfect', f'score:{name}-perfect{sfx}',
                      f'{name} = {v!r} != 1 on the perfect detection cm [[{tp},0],[0,{tn}]]',
                      cm=[[tp, fp], [fn, tn]], value=v)
        if large:
            ctx.ok('large-count')
            if perfect:
                ctx.ok('large-perfect')
            ctx.h('large_count_sizes', ('n<2e5' if total < 200000 else 'n<5e5' if total < 500000 else 'n<=1e6')
                  + f'/k>={(tp + fp) // 10000 * 10000}' + ('/perfect' if perfect else ''))
    return post


def setup(ctx, mods):
    install.monitor(ctx, 'evaluation', 'cm', post_cm)
    for name in ERRFNS:
        install.monitor(ctx, 'evaluation', name, _post_err(name))
    install.monitor(ctx, 'evaluation', 'accuracy', _post_score('accuracy'))
    install.monitor(ctx, 'evaluation', 'f1score', _post_score('f1'))
    install.monitor(ctx, 'evaluation', 'mcc', _post_score('mcc'))
    return {}


# ------------------------------------------------------------------ generators

def _grid_curve(rng):
    """Integer x with a 'round' range, dyadic y: threshold ties d/range == t and exact Euclidean ties."""
    R = int(pick(rng, [16, 20, 32, 64, 100, 20, 100]))
    step = 1
    if R >= 64:
        step = int(pick(rng, [2, 4])) if R == 64 else int(pick(rng, [2, 4, 5]))
    n = R // step + 1
    x = np.arange(n, dtype=float) * step + float(pick(rng, [0, 0, 1, 5]))
    mode = int(rng.integers(0, 4))
    if mode == 0:
        y = np.sort(rng.integers(0, 41, n))[::-1] / 4.0
    elif mode == 1:
        y = rng.integers(0, 9, n).astype(float)
    elif mode == 2:
        y = (np.arange(n, 0, -1) ** 2) / 8.0
    else:
        y = np.full(n, float(rng.integers(0, 5)))
    return np.ascontiguousarray(np.column_stack((x, y)).astype(float)), f'grid:R{R}s{step}'


def _expected(rng, pts, K, kind, room):
    """Expected points of one kind; at most `room` rows, at least 1."""
    n = len(pts)
    x, y = pts[:, 0], pts[:, 1]
    R = float(x.max() - x.min())
    H = float(y.max() - y.min())
    KP = pts[K]
    if kind == 'exact':
        return KP.copy()
    if kind == 'exact-shuffled':
        return KP[rng.permutation(len(K))].copy()
    m = int(rng.integers(1, room + 1))
    if kind == 'jitter':
        idx = np.where(rng.random(m) < 0.6, rng.choice(K, m), rng.integers(0, n, m))
        c = float(pick(rng, [0.005, 0.03, 0.1, 0.5]))
        E = pts[idx].astype(float)
        E[:, 0] += rng.uniform(-1, 1, m) * c * R
        E[:, 1] += rng.uniform(-1, 1, m) * c * (H if H > 0 else 1.0) * (rng.random() < 0.7)
        return E
    if kind == 'arbitrary':
        return np.column_stack((rng.uniform(x.min(), x.max(), m),
                                rng.uniform(y.min(), y.max() + (0.0 if H > 0 else 1.0), m)))
    if kind == 'dup':
        m = max(m, min(2, room))
        hubs = rng.choice(K, size=min(len(K), 2), replace=False)
        idx = rng.choice(hubs, m)
        E = pts[idx].astype(float)
        c = float(pick(rng, [0.0, 0.004, 0.02]))
        E[:, 0] += rng.uniform(-1, 1, m) * c * R
        return E
    if kind == 'mixed':
        m = max(m, min(2, room))
        a = max(1, m // 2)
        sub = rng.choice(K, size=min(a, len(K)), replace=False)
        far = np.column_stack((rng.uniform(x.min(), x.max(), m - len(sub)),
                               rng.uniform(y.min(), y.max() + 1.0, m - len(sub))))
        E = np.vstack((pts[sub].astype(float), far)) if len(far) else pts[sub].astype(float)
        return E[rng.permutation(len(E))]
    if kind == 'edge':
        idx = rng.choice(K, m)
        tt = np.array([T_VALUES[int(i)] for i in rng.integers(1, 5, m)])
        sign = np.where(rng.random(m) < 0.5, 1.0, -1.0)
        E = pts[idx].astype(float)
        E[:, 0] = E[:, 0] + sign * tt * R
        return E
    # midpoint: exactly (or nearly) equidistant from two neighbouring knees
    if len(K) < 2:
        return KP[:1].astype(float) + np.array([0.25 * R / n, 0.0])
    j = rng.integers(0, len(K) - 1, m)
    return (pts[K[j]].astype(float) + pts[K[j + 1]].astype(float)) / 2.0


def _curve_case(rng, tier):
    r = rng.random()
    if r < 0.3:
        pts, fam = _grid_curve(rng)
    elif tier == 'thorough' and r < 0.33:
        pts, meta = gen.curve(rng, nmax=400, nmin=61)
        fam = meta['family']
    else:
        pts, meta = gen.curve(rng, nmax=60, nmin=3)
        fam = meta['family']
    n = len(pts)
    kind = E_KINDS[int(rng.integers(0, len(E_KINDS)))]
    if kind in ('exact', 'exact-shuffled'):
        nk = int(rng.integers(1, max(min(n // 2, 14), 1) + 1))
    else:
        nk = int(rng.integers(1, max(min(n - 1, 14), 1) + 1))
    K = np.sort(rng.choice(n, size=nk, replace=False)).astype(int)
    if rng.random() < 0.15:
        K[0] = 0 if 0 not in K[1:] else K[0]
    if rng.random() < 0.15 and (n - 1) not in K:
        K[-1] = n - 1
    K = np.unique(K)
    room = min(n - len(K), 16)
    E = np.ascontiguousarray(_expected(rng, pts, K, kind, room), dtype=float)
    if len(E) > n - len(K):
        E = E[:n - len(K)]
    lay = gen.pick_layout(rng, pts, 0.6)
    # integral expected points of an int64 curve are handed over as int64 too (knee points copied out of the curve)
    edt = 'i64' if (lay == 'i64' and gen.is_integral(E) and rng.random() < 0.7) else 'f64'
    return {'class': 'curve', 'points': pts, 'family': fam, 'layout': lay,
            'knees': K, 'expected': E, 'ekind': kind, 'edtype': edt}


def _large_int_case(rng):
    """int64 curve of magnitude 1e9..1e10 (bytes, microseconds) with int64 expected points: coordinate differences
    are exact, their squares exceed 2**63."""
    pts = gen.large_int_curve(rng, nmax=40)
    n = len(pts)
    kind = pick(rng, ['exact', 'exact-shuffled', 'jitter', 'mixed', 'arbitrary', 'midpoint'])
    nk = int(rng.integers(1, max(min(n // 2, 10), 1) + 1))
    K = np.unique(np.sort(rng.choice(n, size=nk, replace=False)).astype(int))
    room = min(n - len(K), 12)
    E = np.round(np.ascontiguousarray(_expected(rng, pts, K, kind, room), dtype=float))
    if len(E) > n - len(K):
        E = E[:n - len(K)]
    return {'class': 'curve', 'points': pts, 'family': 'large-int64', 'layout': 'i64',
            'knees': K, 'expected': E, 'ekind': kind, 'edtype': 'i64' if rng.random() < 0.8 else 'f64'}


def _matrix_case(rng, count):
    mats = []
    for _ in range(count):
        r = rng.random()
        n = int(pick(rng, [139907, 140000, 200000, 500000, 1000000])) if r < 0.5 else int(rng.integers(140000, 1000001))
        k = int(pick(rng, [40000, 40000, 20000, 10000, 30000])) if rng.random() < 0.6 else int(rng.integers(1000, 40001))
        q = rng.random()
        if q < 0.3:
            tp = k
        elif q < 0.4:
            tp = 0
        elif q < 0.5:
            tp = k - 1
        else:
            tp = int(rng.integers(0, k + 1))
        mats.append([[tp, k - tp], [k - tp, n - 2 * k + tp]])
    return {'class': 'matrix', 'matrices': np.array(mats, dtype=np.int64)}


def cases(rng, tier, shard, nshards):
    total = META['quick_cases'] if tier == 'quick' else META['thorough_cases']
    mtotal = META['quick_matrices'] if tier == 'quick' else META['thorough_matrices']
    nm = shard_count(mtotal, shard, nshards)
    # the large-count class first: it must never be starved by a budget cut
    for lo in range(0, nm, 50):
        yield _matrix_case(rng, min(50, nm - lo))
    if tier == 'thorough' and shard < 4 and gen.trace('web2.csv') is not None:
        n = len(gen.trace('web2.csv'))
        k = [40000, 40000, 20000, 30000][shard]
        K = np.sort(rng.choice(n, size=k, replace=False)).astype(int)
        yield {'class': 'trace', 'trace': 'web2.csv', 'knees': K,
               'ekind': ['exact', 'jitter', 'exact-shuffled', 'mixed'][shard],
               'eseed': int(rng.integers(0, 2 ** 31)), 't': [0.01, 0.0, 0.05, 0.01][shard]}
    # hundreds of knees / expected points on a long curve (blocked or vectorised matching only shows there)
    for _ in range(1 if tier == 'quick' else 3):
        pts, meta = gen.curve(rng, nmax=1600, nmin=900, family=pick(rng, ['mrc', 'inv', 'noise', 'expdecay']))
        n = len(pts)
        nk = int(rng.integers(257, 520))
        K = np.sort(rng.choice(n, size=nk, replace=False)).astype(int)
        kind = pick(rng, ['jitter', 'arbitrary', 'mixed', 'exact'])
        room = min(n - nk, int(pick(rng, [16, 40, 300, 300])))
        E = np.ascontiguousarray(_expected(rng, pts, K, kind, room) if kind != 'exact' else pts[K].copy(), dtype=float)
        if len(E) > n - nk:
            E = E[:n - nk]
        yield {'class': 'curve', 'points': pts, 'family': str(meta['family']) + '+many-knees', 'layout': 'C', 'knees': K,
               'expected': E, 'ekind': kind, 'edtype': 'f64'}
    for i in range(shard_count(total, shard, nshards)):
        yield _large_int_case(rng) if rng.random() < 0.05 else _curve_case(rng, tier)


# ------------------------------------------------------------------ driver

def _scores(ctx, ev, c, tag):
    for fn in ('accuracy', 'f1score', 'mcc'):
        ok, v = install.guarded(ctx, f'complete:evaluation.{fn}{tag}', getattr(ev, fn), c)
        if ok:
            ctx.ok('complete')


def _trace_expected(case, tr):
    K = np.asarray(case['knees'], dtype=int)
    rng = np.random.default_rng(case['eseed'])
    E = tr[K].astype(float)
    kind = case['ekind']
    if kind == 'exact-shuffled':
        E = E[rng.permutation(len(E))]
    elif kind == 'jitter':
        R = float(tr[:, 0].max() - tr[:, 0].min())
        E[:, 0] += rng.uniform(-1, 1, len(E)) * 2e-5 * R * (rng.random(len(E)) < 0.5)
    elif kind == 'mixed':
        far = rng.random(len(E)) < 0.3
        E[far, 0] = rng.uniform(tr[:, 0].min(), tr[:, 0].max(), int(far.sum()))
    return np.ascontiguousarray(E)


def run_case(ctx, mods, case):
    ev = mods['evaluation']
    cls = case['class']
    if cls == 'matrix':
        for M in np.asarray(case['matrices'], dtype=np.int64):
            _scores(ctx, ev, np.array(M, dtype=np.int64), '')
        ctx.h('case_class', 'large-count matrices')
        return
    if cls == 'trace':
        tr = gen.trace(case['trace'])
        if tr is None:
            ctx.h('case_class', 'trace-unavailable')
            return
        K = np.asarray(case['knees'], dtype=int)
        E = _trace_expected(case, tr)
        ok, c = install.guarded(ctx, 'complete:evaluation.cm', ev.cm, tr, K, E, case['t'])
        ctx.h('case_class', f"trace cm k={len(K)} {case['ekind']}")
        if ok:
            ctx.ok('complete')
            ctx.ok('trace-cm')
            ctx.h('trace_cm', str(np.asarray(c).tolist()))
            _scores(ctx, ev, c, '')
        return

    pts = gen.present(case['points'], case['layout'])
    K = np.asarray(case['knees'], dtype=int)
    E = np.ascontiguousarray(case['expected'], dtype=np.int64 if case.get('edtype') == 'i64' else float)
    fam = str(case['family']).split(':')[0]
    ctx.h('expected_dtype', str(E.dtype))
    ctx.h('case_class', 'curve')
    ctx.h('family_x_ekind', f"{fam}/{case['ekind']}")
    ctx.h('layout', case['layout'])
    ctx.h('sizes', f"|K|{'<' if len(K) < len(E) else '=' if len(K) == len(E) else '>'}|E|")
    mats = {}
    for t in T_VALUES:
        ok, c = install.guarded(ctx, 'complete:evaluation.cm', ev.cm, pts, K, E, t)
        if not ok:
            continue
        ctx.ok('complete')
        mats[t] = c
        _scores(ctx, ev, c, '')
    errs = {}
    for sname in STRATEGIES:
        s = ev.Strategy(sname)
        for fn in ERRFNS:
            ok, v = install.guarded(ctx, f'complete:evaluation.{fn}', getattr(ev, fn), pts, K, E, s)
            if ok:
                ctx.ok('complete')
                errs[f'{fn}/{sname}'] = v
    if mats and len(K) >= 2 and len(E) >= 2:
        c = np.asarray(mats.get(0.05, next(iter(mats.values()))))
        if 0 < int(c[0, 0]) < len(E):
            ctx.sample({'family': case['family'], 'ekind': case['ekind'], 'layout': case['layout'],
                        'n': len(pts), 'knees': K, 'knee_points': np.asarray(case['points'])[K], 'expected': E,
                        'cm': {f't={t:g}': np.asarray(m) for t, m in mats.items()},
                        'errors': {k: float(v) for k, v in errs.items()}})
