"""C15 - global reconstruction cost matches its definition and is cache-transparent."""
import math

import numpy as np

from .. import gen, install, loops
from ..common import COSTS, DISTANCES, EPS, ORDERS, cost, distance, order, pick, shard_count

LD = np.longdouble

META = {
    'refill': True,      # cases presented in a reused buffer are followed by a refill of that buffer (runner)
    'rule': ('history = per curve and metric, 6-40 breakpoint sets (random subsets, the rdp_fixed chain, supersets/subsets '
             'sharing segments, all points, end points only) evaluated in random order against ONE shared cache; every call of '
             'compute_global_cost (also the internal ones made by grdp/mp_grdp) is (i) compared with an independent long-double '
             'model of the definition, (ii) re-evaluated with a fresh cache and compared bit for bit, (iii) its cache audited '
             '(keys only (left,right)/"tss", stored values equal the fresh per-segment values, nothing ever changes); '
             'compute_global_rmse is compared with the RMSE against linear interpolation and mip with median/MAD of the '
             'per-breakpoint RMSE increases. distinct = digest(curve, metric, breakpoints); non-trivial = a query that hits '
             '>= 1 cached segment and misses >= 1'),
    'require': {'model': 3000, 'cache-transparent': 6000, 'cache-audit': 6000, 'all-breakpoints': 300, 'global-rmse': 600,
                'mip': 300, 'nontrivial': 1500},
    'scale': {'quick': 1, 'thorough': 45},
    'quick_cases': 1800, 'thorough_cases': 48000,
    'assumptions': ['relative metrics (smape, rpd, rmspe) are compared numerically only on curves with min y >= 1e-3 max y '
                    '(they are ill-conditioned at y = 0); structural clauses are asserted everywhere',
                    'a cache shared across metrics or curves is outside the property'],
}

CACHES = {}     # id(cache) -> (cache, snapshot)


def model_partial(x, y, l, r, metric):
    """Accumulated error of the end-point line over points l..r (long double)."""
    if r - l + 1 <= 2:
        return LD(0)
    xs, ys = x[l:r + 1], y[l:r + 1]
    dx = xs[0] - xs[-1]
    if dx != 0:
        m = (ys[0] - ys[-1]) / dx
        b = ys[0] - m * xs[0]
    else:
        m = b = LD(0)
    yh = xs * m + b
    eps = LD(1e-16)
    if metric == 'r2':
        return np.sum((ys - yh) ** 2)
    if metric == 'rmsle':
        return np.sum((np.log(ys + 1) - np.log(yh + 1)) ** 2)
    if metric == 'rmspe':
        return np.sum(((ys - yh) / (ys + eps)) ** 2)
    if metric == 'rpd':
        return np.sum(np.abs((ys - yh) / (np.maximum(ys, yh) + eps)))
    return np.sum(2 * np.abs(yh - ys) / (np.abs(ys) + np.abs(yh) + eps))


def model_cost(pts, reduced, metric):
    x = np.asarray(pts[:, 0], dtype=LD)
    y = np.asarray(pts[:, 1], dtype=LD)
    red = [int(v) for v in reduced]
    segs = len(red) - 1
    tot = LD(0)
    for l, r in zip(red[:-1], red[1:]):
        tot = tot + model_partial(x, y, l, r, metric)
    total = len(pts) + segs - 1
    if metric == 'r2':
        tss = np.sum((y - np.mean(y)) ** 2)
        v = 1 - tot if tss == 0 else 1 - tot / tss
    elif metric in ('rmsle', 'rmspe'):
        v = np.sqrt(tot / total)
    else:
        v = tot / total
    return float(v) if v >= 0 else 0.0


def model_rmse(pts, reduced):
    x = np.asarray(pts[:, 0], dtype=LD)
    y = np.asarray(pts[:, 1], dtype=LD)
    red = [int(v) for v in reduced]
    tot = LD(0)
    for l, r in zip(red[:-1], red[1:]):
        tot = tot + model_partial(x, y, l, r, 'r2')
    return float(np.sqrt(tot / len(pts)))


def conditioning(pts):
    """(well-conditioned for relative metrics?, absolute tolerance floor factor)."""
    x = np.asarray(pts[:, 0], dtype=float)
    y = np.asarray(pts[:, 1], dtype=float)
    ymax, ymin = float(np.max(np.abs(y))), float(np.min(y))
    gaps = np.diff(x)
    if not np.all(np.isfinite(pts)) or ymax > 1e100 or len(gaps) == 0 or np.min(gaps) <= 0:
        return False, 0.0, 0.0
    xr = float(np.max(np.abs(x))) / float(np.min(gaps))
    well = ymin >= 1e-3 * ymax and ymax > 0
    rel_floor = 256 * EPS * xr * (ymax / ymin if ymin > 0 else 1.0)
    abs_floor = 256 * EPS * (xr + 1.0) * max(ymax, 1e-300)
    return well, rel_floor, abs_floor


def _valid_breakpoints(red, n):
    try:
        r = np.asarray(red)
        return r.ndim == 1 and len(r) >= 2 and int(r[0]) == 0 and int(r[-1]) == n - 1 and bool(np.all(np.diff(r) > 0))
    except Exception:
        return False


def _bits(v):
    return np.float64(v).tobytes()


def setup(ctx, mods):
    M = mods['metrics']

    def post_cost(ctx, original, args, kwargs, result):
        a = {'cost': M.Metrics.rpd, 'cache': None}
        a.update(dict(zip(['points', 'reduced', 'cost', 'cache'], args)))
        a.update(kwargs)
        pts, red, metric, cache = a['points'], a['reduced'], a['cost'].value, a['cache']
        n = len(pts)
        if not _valid_breakpoints(red, n):
            ctx.ood('model', 'breakpoints-not-ascending-with-both-ends')
            return
        red = [int(v) for v in red]
        # -- structural clauses (everywhere)
        if result != result:
            ctx.ood('model', 'nan-result(overflowed magnitudes)')
            return
        ctx.check(result >= 0, 'nonneg', f'cost:negative:{metric}', f'global cost {result!r} < 0', metric=metric, reduced=red[:60])
        if len(red) == n:
            want = 1.0 if metric == 'r2' else 0.0
            ctx.check(result == want, 'all-breakpoints', f'cost:all-breakpoints:{metric}',
                      f'global cost with every point a breakpoint is {result!r}, expected exactly {want}', metric=metric)
        # -- model (tolerant rule)
        well, rel_floor, abs_floor = conditioning(pts)
        model = model_cost(pts, red, metric)
        numeric = True
        if metric in ('smape', 'rpd', 'rmspe'):
            numeric = well
            atol = rel_floor
        elif metric == 'rmsle':
            atol = abs_floor + 64 * EPS      # log(1 + y) rounds absolutely at 1
            numeric = abs_floor > 0
        else:
            y = np.asarray(pts[:, 1], dtype=float)
            tss = float(np.sum((y - y.mean()) ** 2))
            scale2 = float(np.max(np.abs(y))) ** 2 * n
            numeric = abs_floor > 0 and tss > 1e-9 * scale2
            # error of RSS/TSS: n*delta^2/TSS (what is left on exact fits) plus the cross term 2*delta*sqrt(n*RSS)/TSS
            # <= 2*delta*sqrt(n/TSS), which dominates for poor fits on a large base level (delta = abs_floor)
            atol = (abs_floor ** 2 * n / tss + 8 * abs_floor * math.sqrt(n / tss) + 64 * EPS) if numeric else 0.0
        if numeric:
            err = abs(result - model)
            tol = 1e-6 * abs(model) + atol + 1e-300
            ctx.mx(f'model_err_over_tol:{metric}', err / tol)
            ctx.check(err <= tol, 'model', f'cost:model:{metric}',
                      f'global {metric} cost {result!r} differs from the definition {model!r} (tol {tol:.3g})',
                      metric=metric, reduced=red[:60], n=n)
        else:
            ctx.ood('model', f'ill-conditioned:{metric}')
        # -- cache transparency (exact) and audit
        if cache is not None:
            fresh = {}
            v2 = original(pts, red, a['cost'], fresh)
            ctx.check(_bits(v2) == _bits(result), 'cache-transparent', f'cache:stale-value:{metric}',
                      f'shared-cache value {result!r} != fresh-cache value {v2!r}', metric=metric, reduced=red[:60],
                      cache_keys=[str(k) for k in list(cache.keys())[:40]])
            prev = CACHES.get(id(cache))
            snap = prev[1] if prev is not None and prev[0] is cache else {}
            bad = None
            for k, v in cache.items():
                if not (k == 'tss' or (isinstance(k, tuple) and len(k) == 2)):
                    bad = f'unexpected cache key {k!r}'
                    break
                if k in snap and _bits(snap[k]) != _bits(v):
                    bad = f'cache entry {k!r} changed from {snap[k]!r} to {v!r}'
                    break
                if k in fresh and _bits(fresh[k]) != _bits(v):
                    bad = f'cache entry {k!r} holds {v!r} but the fresh per-segment value is {fresh[k]!r}'
                    break
            if bad is None and any(k not in cache for k in snap):
                bad = 'cache lost keys'
            if bad is None and any(k not in cache for k in fresh):
                bad = f'segments of this query missing from the cache: {[k for k in fresh if k not in cache][:5]}'
            ctx.check(bad is None, 'cache-audit', f'cache:audit:{metric}', bad or '', metric=metric, reduced=red[:60])
            segs = list(zip(red[:-1], red[1:]))
            hits = sum(1 for s in segs if s in snap)
            if 0 < hits < len(segs):
                ctx.nontriv(np.asarray(pts), metric, tuple(red))
                ctx.h('cache_query', 'hit+miss')
            else:
                ctx.h('cache_query', 'all-hit' if hits else 'all-miss')
            CACHES[id(cache)] = (cache, dict(cache))

    def post_rmse(ctx, original, args, kwargs, result):
        a = {'cache': None}
        a.update(dict(zip(['points', 'reduced', 'cache'], args)))
        a.update(kwargs)
        pts, red = a['points'], a['reduced']
        if not _valid_breakpoints(red, len(pts)):
            ctx.ood('global-rmse', 'breakpoints-not-ascending-with-both-ends')
            return
        _, _, abs_floor = conditioning(pts)
        if not abs_floor or result != result:
            ctx.ood('global-rmse', 'non-finite')
            return
        model = model_rmse(pts, red)
        x = np.asarray(pts[:, 0], float)
        y = np.asarray(pts[:, 1], float)
        r = np.asarray(red, dtype=int)
        interp = np.interp(x, x[r], y[r])
        direct = math.sqrt(float(np.mean((y - interp) ** 2)))
        tol = 1e-9 * abs(model) + abs_floor
        ctx.mx('rmse_err_over_tol', abs(result - model) / (tol + 1e-300))
        ctx.check(abs(result - model) <= tol and abs(result - direct) <= 1e-7 * abs(direct) + 4 * abs_floor, 'global-rmse', 'rmse:model',
                  f'compute_global_rmse {result!r} differs from the RMSE against linear interpolation {model!r} / np.interp {direct!r}',
                  reduced=[int(v) for v in red][:60])
        if a['cache'] is not None:
            v2 = original(pts, red)
            ctx.check(_bits(v2) == _bits(result), 'rmse-cache-transparent', 'cache:stale-value:rmse',
                      f'shared-cache RMSE {result!r} != fresh-cache RMSE {v2!r}', reduced=[int(v) for v in red][:60])

    def post_mip(ctx, original, args, kwargs, result):
        a = dict(zip(['points', 'reduced'], args))
        a.update(kwargs)
        pts, red = a['points'], a['reduced']
        if not _valid_breakpoints(red, len(pts)) or len(red) < 3:
            ctx.ood('mip', 'needs >= 1 interior breakpoint')
            return
        _, _, abs_floor = conditioning(pts)
        if not abs_floor:
            ctx.ood('mip', 'non-finite')
            return
        r = [int(v) for v in red]
        fin = model_rmse(pts, r)
        ip = np.array([model_rmse(pts, r[:i] + r[i + 1:]) - fin for i in range(1, len(r) - 1)])
        med = float(np.median(ip))
        mad = float(np.median(np.abs(ip - med)))
        tol = 1e-9 * (abs(med) + abs(mad) + fin) + 8 * abs_floor
        ctx.check(abs(result[0] - med) <= tol and abs(result[1] - mad) <= tol, 'mip', 'mip:model',
                  f'mip returned {tuple(float(v) for v in result)!r}, definition gives ({med!r}, {mad!r})', reduced=r[:60])

    install.monitor(ctx, 'evaluation', 'compute_global_cost', post_cost)
    install.monitor(ctx, 'evaluation', 'compute_global_rmse', post_rmse)
    install.monitor(ctx, 'evaluation', 'mip', post_mip)
    return {'loops': loops.standard(ctx, mods)}


def breakpoint_sets(rng, mods, pts, k):
    """k breakpoint sets over one curve that share many segments."""
    n = len(pts)
    sets = [np.array([0, n - 1]), np.arange(n)]
    if n > 2:
        with install.quiet():
            dn, on = pick(rng, DISTANCES), pick(rng, ORDERS)
            for kk in sorted(set(int(v) for v in rng.integers(2, n + 1, 6))):
                sets.append(np.asarray(mods['rdp'].rdp_fixed(pts, kk, distance(mods, dn), order(mods, on))[0]))
        base = np.sort(rng.choice(np.arange(1, n - 1), size=int(rng.integers(1, n - 1)), replace=False))
        while len(sets) < k:
            mode = rng.random()
            cur = base
            if mode < 0.4 and len(cur) > 1:       # subset sharing segments
                cur = np.delete(cur, int(rng.integers(0, len(cur))))
            elif mode < 0.8:                       # superset
                extra = int(rng.integers(1, n - 1))
                cur = np.unique(np.append(cur, extra))
            else:
                cur = np.sort(rng.choice(np.arange(1, n - 1), size=int(rng.integers(1, n - 1)), replace=False))
            base = cur
            sets.append(np.concatenate(([0], cur, [n - 1])).astype(int))
    order_ = rng.permutation(len(sets))
    return [sets[i] for i in order_]


def long_case(rng):
    """A curve with more than 2**16 points and breakpoint sets mixing adjacent small indices with far right ones."""
    n = int(rng.integers(70000, 100000))
    x = np.arange(1, n + 1, dtype=float)
    y = 1.0 / np.sqrt(x) + 0.05 + 0.01 * np.sin(x / 997.0)
    pts = np.ascontiguousarray(np.column_stack((x, y)))
    far = sorted(int(v) for v in rng.integers(65536, n - 1, 3))
    base = [0, 1, 2, 3, 4, 5]
    sets = [np.array(base + far[:1] + [n - 1]), np.array(base[:4] + far + [n - 1]), np.array([0, 2, 4] + far[1:] + [n - 1]),
            np.array([0, 1, 3, 5, 1000, 40000] + far + [n - 1]), np.array([0, n - 1])]
    return {'points': pts, 'family': 'long(>65536 points)', 'layout': 'C', 'cost': pick(rng, COSTS), 'sets': sets,
            'aslist': False, 'long': True,
            'grdp': {'t': 0.5, 'distance': 'shortest', 'order': 'segment', 'min_points': 0}}


def cases(rng, tier, shard, nshards):
    from .. import boot
    mods = boot.modules()
    total = META['quick_cases'] if tier == 'quick' else META['thorough_cases']
    yield long_case(rng)
    for i in range(shard_count(total, shard, nshards)):
        r = rng.random()
        if tier == 'thorough' and r < 0.02:
            pts, meta = gen.curve(rng, nmax=1500, nmin=200)
        else:
            pts, meta = gen.curve(rng, nmax=70)
        if rng.random() < 0.5:      # keep half of the curves away from y = 0 (relative metrics comparable)
            pts = pts.copy()
            pts[:, 1] = pts[:, 1] + max(float(pts[:, 1].max()), 1.0) * float(rng.uniform(0.01, 1.0))
        lay = None
        u = rng.random()
        if u < 0.05:
            pts = pts.copy()
            pts[:, 1] = pts[:, 1] * 10.0 ** -float(rng.integers(8, 13))      # tiny units: TSS far below machine eps, not zero
            meta = dict(meta, family=meta['family'] + '+tiny-y')
        elif u < 0.10 and len(pts) <= 200:
            # large integral magnitudes held in int64 (bytes vs counts): |y| * x-range exceeds 2**63, values do not
            x = np.cumsum(rng.integers(1, 5, len(pts))).astype(float) * 10.0 ** int(rng.integers(5, 9))
            y = np.round(pts[:, 1] / max(float(pts[:, 1].max()), 1e-300) * 10.0 ** int(rng.integers(9, 13)))
            pts = np.ascontiguousarray(np.column_stack((x, y)))
            meta, lay = dict(meta, family=meta['family'] + '+large-int64'), 'i64'
        sets = breakpoint_sets(rng, mods, pts, int(rng.integers(6, 41)) if len(pts) < 200 else 8)
        yield {'points': pts, 'family': meta['family'], 'layout': lay or gen.pick_layout(rng, pts),
               'cost': pick(rng, COSTS), 'sets': sets, 'aslist': bool(rng.random() < 0.3),
               'grdp': {'t': gen.threshold(rng), 'distance': pick(rng, DISTANCES), 'order': pick(rng, ORDERS),
                        'min_points': int(rng.integers(0, len(pts) + 2))}}


def run_case(ctx, mods, case):
    ev = mods['evaluation']
    pts = gen.present(case['points'], case['layout'])
    metric = cost(mods, case['cost'])
    CACHES.clear()
    shared = {}
    shared_rmse = {}
    for j, s in enumerate(case['sets']):
        red = [int(v) for v in s] if case['aslist'] else np.asarray(s)
        ok, _ = install.guarded(ctx, 'complete:evaluation.compute_global_cost', ev.compute_global_cost, pts, red, metric, shared)
        if j % 3 == 0:
            install.guarded(ctx, 'complete:evaluation.compute_global_cost', ev.compute_global_cost, pts, red, metric)
        if j % 2 == 0:
            install.guarded(ctx, 'complete:evaluation.compute_global_rmse', ev.compute_global_rmse, pts, np.asarray(s), shared_rmse)
        if j < 3 and len(s) >= 3 and len(s) <= 40:
            install.guarded(ctx, 'complete:evaluation.mip', ev.mip, pts, np.asarray(s))
    if case.get('long'):
        ctx.h('metric', 'long-curve')
        return
    ctx.h('metric', case['cost'])
    ctx.h('sets_per_history', len(case['sets']) if len(case['sets']) < 10 else ('10-19' if len(case['sets']) < 20 else '20+'))
    # the internal cache of global RDP is observed as well
    g = case['grdp']
    t = g['t'] if case['cost'] != 'r2' else min(g['t'], 1.0)
    install.guarded(ctx, 'complete:rdp.mp_grdp', mods['rdp'].mp_grdp, pts, t, g['min_points'],
                    distance(mods, g['distance']), metric, order(mods, g['order']))
    ctx.sample({'family': case['family'], 'n': len(pts), 'metric': case['cost'],
                'breakpoint_sets': [list(map(int, s))[:12] for s in case['sets'][:4]], 'points_head': case['points'][:5]}, cap=3)
