"""C18 - convex-hull routines return the true hull (DESIGN.md section 4, C18).

Monitors (postconditions on the real module attributes of ``convex_hull``):

* ``graham_scan_lower`` / ``graham_scan_upper`` on x-sorted curves:
  shape (strictly increasing index chain 0..n-1), every point on or above
  (below) the chain, consecutive edges turn strictly ccw (cw).  All
  orientations are evaluated in exact rational arithmetic on the values the
  library received.  Exact-arithmetic rule: on curves whose coordinates are
  multiples of 1/16 below 2^20 (every orientation product of the library is
  exact in float64) the sign tests are exact and the chain must equal the
  brute-force chain (Python ints); on other (float) curves an orientation with
  |o| <= 64 eps (|p1| + |p2|) - products of the worst-conditioned of the three
  base-point expansions of the determinant - counts as collinear either way.
* ``graham_scan`` on >= 3 distinct integer points: completes, no repeated
  index, every extreme vertex present, only boundary points, and in general
  position exactly the clockwise vertex cycle from the lowest-leftmost point
  (classification by definition, O(n^3) in Python ints).
* loop monitor on the three scans (<= 2n + 8 steps).
"""
from fractions import Fraction

import numpy as np

from .. import gen, install, loops
from ..common import pick, shard_count

META = {
    'refill': True,      # chain cases presented in a reused buffer are followed by a refill of that buffer (runner)
    'rule': ('chains: 12 gen.curve families (x strictly increasing, float and integer) plus generated '
             'integer/dyadic curves (small-integer y, integer-slope piecewise-linear convex/concave/zigzag '
             'curves with collinear runs on every hull edge, fully collinear, n = 2, 3, 4..80; thorough up to '
             '3000) x {C,F,view,int64} layouts, each through graham_scan_lower and graham_scan_upper; '
             'graham_scan: 3..14 distinct integer points on grids 2..6 wide (random subsets, forced collinear '
             'runs, fully collinear sets, general-position subsets) and wide-coordinate integer sets, shuffled; '
             'distinct = digest(points, routine); non-trivial = hull/chain with >= 3 vertices and >= 1 point '
             'that is not a hull vertex'),
    'require': {'chain:lower:shape': 900, 'chain:upper:shape': 900,
                'chain:lower:below': 900, 'chain:upper:above': 900,
                'chain:lower:turn': 900, 'chain:upper:turn': 900,
                'chain:lower:equal-bruteforce': 350, 'chain:upper:equal-bruteforce': 350,
                'graham:complete': 900, 'graham:shape': 900, 'graham:missing-vertex': 900,
                'graham:non-boundary': 900, 'graham:order': 150, 'nontrivial': 1200},
    'scale': {'quick': 1, 'thorough': 20},
    'shards': {'quick': 8, 'thorough': 16},
    'quick_chain': 8000, 'quick_graham': 8000,
    'thorough_chain': 64000, 'thorough_graham': 64000,
    'assumptions': [
        'orientation signs are decided in exact rational arithmetic on the float64 values handed to the library; '
        'on non-dyadic (float) curves an orientation within 64 eps (|p1|+|p2|) of zero (products of the worst-'
        'conditioned base-point expansion) is accepted either way, so '
        'a wrong decision below that floor is invisible there (it is visible on the integer/dyadic curves)',
        '"lowest-leftmost point" is accepted under both readings: min by (x, then y) - the convention of '
        '_sort_points - and min by (y, then x)',
        'graham_scan is exercised on integer points only (|coord| < 2^20), where every predicate is exact',
        'termination of the three scans is decided as a step bound (<= 2n + 8 loop iterations per call)',
    ],
}

LIM = float(2 ** 20)
NOISE = Fraction(64, 2 ** 52)       # 64 eps, relative to |p1| + |p2|
EPSF = Fraction(1, 2 ** 52)
BRUTE_MAX = 400


# ---------------------------------------------------------------- exact geometry

def exact_class(P):
    """Every difference/product/difference of the library's orientation is exact in float64."""
    raw = np.asarray(P)
    if raw.dtype.kind in 'iu':
        # integer-typed input: the library's differences and products are exact in int64 as long as they fit (|coord| < 2^30)
        return bool(raw.size == 0 or int(np.max(np.abs(raw))) < 2 ** 30)
    a = np.asarray(P, dtype=float)
    return bool(np.all(np.isfinite(a)) and np.all(np.abs(a) < LIM) and np.all(a * 16.0 == np.round(a * 16.0)))


def coords(P, exact):
    """Exact coordinates: Python ints (scaled by 16) on the exact class, Fractions otherwise."""
    a = np.asarray(P)
    if exact:
        return [(int(round(float(u) * 16.0)), int(round(float(v) * 16.0))) for u, v in a]
    return [(Fraction(float(u)), Fraction(float(v))) for u, v in a]


def orient(C, a, b, c):
    """(exact orientation of a->b->c, |p1| + |p2|); > 0 counter-clockwise."""
    ax, ay = C[a]
    p1 = (C[b][0] - ax) * (C[c][1] - ay)
    p2 = (C[c][0] - ax) * (C[b][1] - ay)
    return p1 - p2, abs(p1) + abs(p2)


def noise_scale(C, a, b, c):
    """Largest |p1| + |p2| over the three choices of base point of the 2x2 orientation determinant.

    A float implementation is free to take any vertex of the triple as base (graham_scan_upper takes the newest
    point, which can be far from the two stack tops), so its rounding noise is relative to the worst-conditioned
    of the three expansions, not to the expansion this oracle happens to use.
    """
    return max(orient(C, a, b, c)[1], orient(C, b, c, a)[1], orient(C, c, a, b)[1])


def brute_chain(C, sign):
    """Strict lower (sign=+1) / upper (sign=-1) hull chain by definition, integer coordinates.

    i is a vertex iff it lies strictly below (above) every chord a-b with a < i < b, i.e. the largest slope
    arriving from the left is smaller than the smallest slope leaving to the right.
    """
    n = len(C)
    out = [0]
    for i in range(1, n - 1):
        xi, yi = C[i][0], sign * C[i][1]
        ldy, ldx = None, None
        for a in range(i):
            dy, dx = yi - sign * C[a][1], xi - C[a][0]
            if ldy is None or dy * ldx > ldy * dx:
                ldy, ldx = dy, dx
        rdy, rdx = None, None
        for b in range(i + 1, n):
            dy, dx = sign * C[b][1] - yi, C[b][0] - xi
            if rdy is None or dy * rdx < rdy * dx:
                rdy, rdx = dy, dx
        if ldy * rdx < rdy * ldx:
            out.append(i)
    out.append(n - 1)
    return out


# ---------------------------------------------------------------- chain monitor

def check_chain(ctx, which, points, result):
    side = 'below' if which == 'lower' else 'above'
    sign = 1 if which == 'lower' else -1
    pre = f'chain:{which}'
    try:
        P = np.asarray(points)
        dom = P.ndim == 2 and P.shape[1] == 2 and len(P) >= 2 and bool(np.all(np.isfinite(P.astype(float))))
    except Exception:
        dom = False
    if not dom:
        ctx.ood(pre, 'not-a-finite-curve')
        return
    if not bool(np.all(np.diff(P[:, 0].astype(float)) > 0)):
        ctx.ood(pre, 'x-not-strictly-increasing')
        return
    n = len(P)

    # -- shape
    why = ''
    try:
        r = np.asarray(result)
        if r.ndim != 1 or len(r) < 2 or not np.issubdtype(r.dtype, np.integer):
            why = f'not an integer index vector with >= 2 entries: {result!r}'
        elif int(r[0]) != 0 or int(r[-1]) != n - 1:
            why = f'chain does not run from 0 to n-1: first={int(r[0])} last={int(r[-1])} n={n}'
        elif not bool(np.all(np.diff(r) > 0)):
            why = f'chain not strictly increasing: {r.tolist()[:40]}'
    except Exception as e:
        why = f'result is not an index vector: {e!r}'
    if why:
        ctx.violation(f'{pre}:shape', f'{pre}:shape', why, n=n, result=result)
        return
    ctx.ok(f'{pre}:shape')
    chain = [int(v) for v in r]

    exact = exact_class(P)
    C = coords(P, exact)
    ctx.h('chain_class', 'exact' if exact else 'float')

    # -- every point on or above (below) the chain
    bad = None
    for a, b in zip(chain[:-1], chain[1:]):
        for i in range(a + 1, b):
            o, s = orient(C, a, b, i)
            o *= sign
            if o < 0:
                if not exact:
                    s = noise_scale(C, a, b, i)
                if exact or o < -NOISE * s:
                    bad = (a, b, i, o, s)
                    break
                ctx.mx(f'{pre}:{side}:noise_in_eps_units', float(-o / (EPSF * s)))
        if bad:
            break
    if bad:
        a, b, i, o, s = bad
        ctx.violation(f'{pre}:{side}', f'{pre}:{side}',
                      f'point {i} lies strictly {side} chain edge ({a},{b}): orientation {float(o):.6g} '
                      f'(|p1|+|p2| = {float(s):.6g}, exact arithmetic={exact})',
                      n=n, chain=chain[:60], edge=[a, b], point=i, exact=exact)
    else:
        ctx.ok(f'{pre}:{side}')

    # -- consecutive edges turn strictly ccw (cw)
    bad = None
    for a, b, c in zip(chain[:-2], chain[1:-1], chain[2:]):
        o, s = orient(C, a, b, c)
        o *= sign
        if o <= 0:
            if not exact:
                s = noise_scale(C, a, b, c)
            if exact or o < -NOISE * s:
                bad = (a, b, c, o, s)
                break
            if s:
                ctx.mx(f'{pre}:turn:noise_in_eps_units', float(-o / (EPSF * s)))
    if bad:
        a, b, c, o, s = bad
        ctx.violation(f'{pre}:turn', f'{pre}:turn',
                      f'chain vertices ({a},{b},{c}) do not turn strictly '
                      f'{"counter-clockwise" if sign > 0 else "clockwise"}: orientation {float(o):.6g} '
                      f'(exact arithmetic={exact})', n=n, chain=chain[:60], triple=[a, b, c], exact=exact)
    else:
        ctx.ok(f'{pre}:turn')

    # -- exact-arithmetic rule: equality with the brute-force chain
    if exact:
        if n <= BRUTE_MAX:
            want = brute_chain(C, sign)
            ctx.check(chain == want, f'{pre}:equal-bruteforce', f'{pre}:equal-bruteforce',
                      f'{which} chain {chain[:40]} != brute-force chain {want[:40]}',
                      n=n, chain=chain[:80], expected=want[:80])
        else:
            ctx.ood(f'{pre}:equal-bruteforce', 'longer-than-brute-force-limit')

    ctx.h(f'chain_vertices:{which}', len(chain) if len(chain) < 8 else ('8-15' if len(chain) < 16 else '16+'))


# ---------------------------------------------------------------- graham_scan monitor

def classify(pts):
    """By definition, in Python ints: (boundary flags, extreme flags, general position?, fully collinear?)."""
    n = len(pts)

    def o(a, b, c):
        return ((pts[b][0] - pts[a][0]) * (pts[c][1] - pts[a][1])
                - (pts[c][0] - pts[a][0]) * (pts[b][1] - pts[a][1]))

    general = True
    between = [False] * n
    for a in range(n):
        for b in range(a + 1, n):
            for p in range(n):
                if p == a or p == b:
                    continue
                if o(a, b, p) == 0:
                    general = False
                    dot = ((pts[a][0] - pts[p][0]) * (pts[b][0] - pts[p][0])
                           + (pts[a][1] - pts[p][1]) * (pts[b][1] - pts[p][1]))
                    if dot < 0:
                        between[p] = True
    boundary = [False] * n
    for p in range(n):
        for q in range(n):
            if q == p:
                continue
            pos = neg = False
            for r in range(n):
                v = o(p, q, r)
                if v > 0:
                    pos = True
                elif v < 0:
                    neg = True
                if pos and neg:
                    break
            if not (pos and neg):
                boundary[p] = True      # the line p-q supports the set
                break
    extreme = [boundary[p] and not between[p] for p in range(n)]
    collinear = all(o(0, 1, k) == 0 for k in range(2, n))
    return boundary, extreme, general, collinear, o


def check_graham(ctx, points, result):
    try:
        P = np.asarray(points)
        A = P.astype(float)
        # float arrays: |coord| < 2^20 keeps every orientation product exact in float64; int64 arrays compute the
        # products in int64, exact up to |coord| < 2^30
        lim = float(2 ** 30) if P.dtype.kind in 'iu' else LIM
        dom = P.ndim == 2 and P.shape[1] == 2 and len(P) >= 3 and bool(np.all(np.isfinite(A))) \
            and bool(np.all(A == np.round(A))) and bool(np.all(np.abs(A) < lim))
    except Exception:
        dom = False
    if not dom:
        ctx.ood('graham', 'not-an-integer-point-set-of-3+')
        return
    pts = [(int(u), int(v)) for u, v in A]
    n = len(pts)
    if len(set(pts)) != n:
        ctx.ood('graham', 'repeated-point')
        return

    why = ''
    try:
        r = np.asarray(result)
        if r.ndim != 1 or not np.issubdtype(r.dtype, np.integer) or len(r) < 2:
            why = f'not an integer index vector with >= 2 entries: {result!r}'
        elif int(r.min()) < 0 or int(r.max()) >= n:
            why = f'index out of range: {r.tolist()}'
        elif len(set(r.tolist())) != len(r):
            why = f'repeated index: {r.tolist()}'
    except Exception as e:
        why = f'result is not an index vector: {e!r}'
    if why:
        ctx.violation('graham:shape', 'graham:shape', why, points=pts, result=result)
        return
    ctx.ok('graham:shape')
    hull = [int(v) for v in r]

    boundary, extreme, general, collinear, o = classify(pts)
    verts = [i for i in range(n) if extreme[i]]
    cls = 'fully-collinear' if collinear else ('general-position' if general else 'collinear-subset')
    ctx.h('graham_class', cls)
    ctx.h('graham_hull_vertices', len(verts))
    ctx.h('graham_returned_non_vertex_boundary_points', sum(1 for i in hull if boundary[i] and not extreme[i]))

    missing = [i for i in verts if i not in hull]
    ctx.check(not missing, 'graham:missing-vertex', 'graham:missing-vertex',
              f'extreme vertices {missing} (points {[pts[i] for i in missing]}) absent from the result {hull} '
              f'[{cls}]', points=pts, result=hull, vertices=verts, cls=cls)
    inner = [i for i in hull if not boundary[i]]
    ctx.check(not inner, 'graham:non-boundary', 'graham:non-boundary',
              f'result {hull} contains non-boundary points {inner} ({[pts[i] for i in inner]}) [{cls}]',
              points=pts, result=hull, vertices=verts, cls=cls)

    if general and not missing and not inner:
        # exactly the vertex set (implied by the two clauses above), clockwise, from the lowest-leftmost point
        start_xy = min(range(n), key=lambda i: (pts[i][0], pts[i][1]))
        start_yx = min(range(n), key=lambda i: (pts[i][1], pts[i][0]))
        why = ''
        if sorted(hull) != verts:
            why = f'result {hull} is not exactly the vertex set {verts}'
        elif hull[0] not in (start_xy, start_yx):
            why = (f'cycle starts at {hull[0]} {pts[hull[0]]}, not at the lowest-leftmost point '
                   f'{start_xy} {pts[start_xy]} (or {start_yx} {pts[start_yx]})')
        else:
            m = len(hull)
            for k in range(m):
                u, v = hull[k], hull[(k + 1) % m]
                if any(o(u, v, q) >= 0 for q in range(n) if q != u and q != v):
                    why = (f'edge {u}->{v} of the returned cycle {hull} does not have every other point strictly '
                           f'on its right: not the clockwise hull cycle')
                    break
        if not why:
            ctx.h('graham_start', 'both' if start_xy == start_yx else ('min(x,y)' if hull[0] == start_xy else 'min(y,x)'))
        ctx.check(not why, 'graham:order', 'graham:order', why, points=pts, result=hull, vertices=verts)

    if len(verts) >= 3 and len(verts) < n:
        ctx.nontriv(np.array(pts), 'graham_scan')
    ctx.sample({'routine': 'graham_scan', 'class': cls, 'points': pts, 'result': hull,
                'extreme_vertices': verts, 'boundary': [i for i in range(n) if boundary[i]]}, cap=3)


# ---------------------------------------------------------------- setup

def refill_ok(case):
    return case.get('kind') == 'chain'       # graham_scan cases must stay on the integer lattice


def _wraps(P):
    """Integer-typed curve whose orientation products (dx * dy of two coordinate differences) can exceed 2**63."""
    P = np.asarray(P)
    if P.ndim != 2 or P.shape[1] != 2 or P.dtype.kind not in 'iu' or len(P) < 3:
        return False
    return float(np.ptp(P[:, 0].astype(float))) * float(np.ptp(P[:, 1].astype(float))) > 2.0 ** 62


def chain_monitor(ctx, which, original, points, result):
    """check_chain, with one mechanism classified apart: on an integer-typed curve whose orientation products do not fit
    int64, a chain that violates the hull definition while the routine's answer for the float64 representation of the
    same values satisfies it is the int64 wrap-around of the orientation predicate (key chain:<which>:int64-overflow)."""
    if _wraps(points):
        from ..ctx import Ctx
        dry = Ctx(ctx.prop, ctx.tier, ctx.seed, ctx.shard, ctx.nshards)
        check_chain(dry, which, points, result)
        if dry.vkeys:
            Pf = np.asarray(points, dtype=float)
            dry2 = Ctx(ctx.prop, ctx.tier, ctx.seed, ctx.shard, ctx.nshards)
            check_chain(dry2, which, Pf, original(Pf))
            wrapped = True
            if PROBE[0] is not None:
                # the listed mechanism is the wrap of the orientation predicate: replay the call and see whether any
                # evaluation of convex_hull._ccw really differed from its exact integer value
                w0 = PROBE[0][0]
                original(points)
                wrapped = PROBE[0][0] > w0
                ctx.h('ccw_int64_wraps_during_call', 'some' if wrapped else 'none')
            if not dry2.vkeys and wrapped:
                ctx.violation(f'chain:{which}:int64-overflow', f'chain:{which}:int64-overflow',
                              f'graham_scan_{which} on an int64 curve of magnitude {float(np.max(np.abs(points))):.3g}: ' + dry.violations[0]['what']
                              + ' - the float64 representation of the same values gets a correct chain (int64 products in the orientation predicate wrap)',
                              n=len(points), result=result)
                return
    check_chain(ctx, which, points, result)


PROBE = [None]      # the counter of wrapped convex_hull._ccw evaluations, once the probe is installed (C18's own check)


def setup(ctx, mods):
    from . import c20
    c20._install_ccw_probe(mods)
    PROBE[0] = c20.CCW_WRAP

    def post_lower(ctx, original, args, kwargs, result):
        chain_monitor(ctx, 'lower', original, args[0] if args else kwargs['points'], result)

    def post_upper(ctx, original, args, kwargs, result):
        chain_monitor(ctx, 'upper', original, args[0] if args else kwargs['points'], result)

    def post_graham(ctx, original, args, kwargs, result):
        check_graham(ctx, args[0] if args else kwargs['points'], result)

    install.monitor(ctx, 'convex_hull', 'graham_scan_lower', post_lower)
    install.monitor(ctx, 'convex_hull', 'graham_scan_upper', post_upper)
    install.monitor(ctx, 'convex_hull', 'graham_scan', post_graham)
    return {'loops': loops.standard(ctx, mods)}


# ---------------------------------------------------------------- generators

def exact_curve(rng, n=None):
    """Integer / dyadic curve (multiples of 1/16, |coord| < 2^20) with many collinear runs."""
    if n is None:
        r = rng.random()
        n = 2 if r < 0.04 else (3 if r < 0.10 else (int(rng.integers(4, 9)) if r < 0.25 else int(rng.integers(9, 81))))
    xp = int(rng.integers(0, 3))
    if xp == 0:
        x = np.arange(n, dtype=float) + float(rng.integers(-3, 4))
    elif xp == 1:
        x = np.cumsum(rng.integers(1, 5, n)).astype(float) - float(rng.integers(0, 6))
    else:
        x = np.cumsum(rng.integers(1, 9, n)).astype(float) / 4.0
    kind = pick(rng, ['smallint', 'smallint', 'convex', 'concave', 'zigzag', 'line', 'plateau', 'dyadic'])
    if kind == 'smallint':
        y = rng.integers(0, int(rng.integers(2, 6)), n).astype(float)
    elif kind in ('convex', 'concave', 'zigzag'):
        k = int(rng.integers(1, 6))
        cuts = np.sort(rng.integers(1, max(n - 1, 2), k))
        slopes = rng.integers(-6, 7, k + 1).astype(float)
        if kind == 'convex':
            slopes = np.sort(slopes)
        elif kind == 'concave':
            slopes = np.sort(slopes)[::-1]
        if rng.random() < 0.4:
            slopes = slopes / 4.0
        seg = np.searchsorted(cuts, np.arange(n), side='right')
        dy = slopes[seg][:-1] * np.diff(x)
        y = np.concatenate(([0.0], np.cumsum(dy)))
        if rng.random() < 0.7:
            y = y - y.min()
    elif kind == 'line':
        s = float(pick(rng, [0, 1, -1, 2, -3, 0.5, -0.25]))
        y = s * (x - x[0]) + float(rng.integers(0, 5))
        if rng.random() < 0.3 and n > 3:     # one point off the line
            y[int(rng.integers(1, n - 1))] += float(pick(rng, [-1, 1, 0.5, -0.5]))
    elif kind == 'plateau':
        lv = rng.integers(0, 4, 3).astype(float)
        cuts = np.sort(rng.integers(0, n, 2))
        y = lv[np.searchsorted(cuts, np.arange(n), side='right')]
    else:
        y = rng.integers(0, 40, n).astype(float) / 8.0
    pts = np.ascontiguousarray(np.column_stack((x, y)))
    return pts, 'exact:' + kind


def sweep_back_curve(rng):
    """A strictly convex (or concave) run of many hull vertices followed by one sample that sweeps most of them off the
    stack in a single step and lies EXACTLY on the line through two consecutive earlier vertices: the pop loop has to run
    for many iterations and to stop on an exact zero turn."""
    m = int(rng.integers(9, 30))
    k = np.arange(m, dtype=float)
    sign = 1.0 if rng.random() < 0.5 else -1.0
    y = sign * k * k                                   # vertices (k, +-k^2): every one is a hull vertex of its side
    j = int(rng.integers(0, max(1, m - 8)))            # the final sample lies on the line through vertices j and j+1
    s = int(rng.integers(m - j + 1, m - j + 12))
    xe = k[j] + s
    ye = y[j] + s * (y[j + 1] - y[j])
    x = np.concatenate((k, [xe]))
    yy = np.concatenate((y, [ye]))
    tail = int(rng.integers(0, 4))
    if tail:                                            # and a few more samples afterwards
        x = np.concatenate((x, xe + np.arange(1, tail + 1)))
        yy = np.concatenate((yy, ye + sign * rng.integers(0, 5, tail).astype(float) * np.arange(1, tail + 1)))
    pts = np.column_stack((x + float(rng.integers(-3, 4)), yy - min(0.0, float(yy.min()))))
    return np.ascontiguousarray(pts), 'exact:sweep-back'


def faint_vertex_curve(rng):
    """int64 curve of magnitude 1e8..4e8 with a hull vertex so shallow that the slopes of its two edges, p/q and r/s with
    q*r - p*s = +-1, differ by less than one ulp as float64 quotients, while every product of two coordinate differences
    stays below 2**62 (exact in int64): any comparison of rounded slopes misses the vertex, the
    cross-product predicate does not."""
    k = int(rng.integers(100_000_000, 200_000_000))
    sign = 1 if rng.random() < 0.5 else -1
    L = int(rng.integers(1000, 100000))
    # edge slopes 3, 2, (k+1)/k, (k+2)/(k+1), 1/2, -1: strictly decreasing, so every sample is a vertex of the upper chain
    # (of the lower chain after mirroring); the two middle slopes differ by 1/(k(k+1)) - determinant of the two edges: -1
    steps = [(L, 3 * L), (L, 2 * L), (k, k + 1), (k + 1, k + 2), (2 * L, L), (L, -L)]
    pts = [(0, 0)]
    for dx, dy in steps:
        pts.append((pts[-1][0] + dx, pts[-1][1] + dy))
    a = np.array(pts, dtype=float)
    a[:, 1] *= sign
    a[:, 1] -= a[:, 1].min()
    return np.ascontiguousarray(a), 'exact:faint-vertex'


DIRS = [(1, 0), (0, 1), (1, 1), (1, -1), (2, 1), (1, 2), (2, -1), (1, -2), (3, 1), (1, -3)]


def point_set(rng):
    """>= 3 distinct integer points; returns (array, generator class)."""
    r = rng.random()
    if r < 0.04:
        # int64 coordinates of ~2^27..2^29 with pairs almost (but not) in line with the lowest-leftmost point:
        # directions whose slopes differ by less than one double ulp, cross products of +-1
        a = int(2 ** int(rng.integers(26, 29))) + int(rng.integers(0, 1000))
        ox, oy = int(rng.integers(-5, 6)), int(rng.integers(-5, 6))
        base = [(0, 0), (a, a + 1), (2 * a - 1, 2 * a + 1)]
        if rng.random() < 0.5:
            base.append((a + 1, a))
        extra = {(int(u), int(v)) for u, v in rng.integers(1, 2 ** 28, (int(rng.integers(0, 5)), 2))}
        allp = list(dict.fromkeys(base + sorted(extra)))
        pts = np.array([[ox + u, oy + v] for u, v in allp], dtype=float)
        return pts[rng.permutation(len(pts))], 'huge-int64'
    if r < 0.15:                       # fully collinear
        k = int(rng.integers(3, 15))
        t = np.sort(rng.choice(np.arange(0, 20), size=k, replace=False))
        dx, dy = DIRS[int(rng.integers(0, len(DIRS)))]
        bx, by = int(rng.integers(-5, 6)), int(rng.integers(-5, 6))
        pts = np.array([[bx + dx * int(u), by + dy * int(u)] for u in t], dtype=float)
        cls = 'line'
    elif r < 0.35:                     # wide coordinates, mostly general position
        k = int(rng.integers(3, 15))
        while True:
            pts = rng.integers(-1000, 1001, (k, 2)).astype(float)
            if len({(a, b) for a, b in pts.tolist()}) == k:
                break
        cls = 'wide'
    else:
        w, hgt = int(rng.integers(2, 7)), int(rng.integers(2, 7))
        cells = [(i, j) for i in range(w) for j in range(hgt)]
        k = int(rng.integers(3, min(14, len(cells)) + 1))
        if r < 0.55:                   # general position on the grid (small subsets), by rejection
            k = min(k, int(rng.integers(3, 8)))
            sel = None
            for _ in range(30):
                idx = rng.choice(len(cells), size=k, replace=False)
                cand = [cells[int(i)] for i in idx]
                if _general(cand):
                    sel = cand
                    break
            if sel is None:
                sel = cand
            cls = 'grid-general'
        elif r < 0.75:                 # a full row / column / diagonal run plus random others
            run = pick(rng, ['row', 'col', 'diag', 'left-col', 'bottom-row'])
            if run == 'row':
                j = int(rng.integers(0, hgt))
                forced = [(i, j) for i in range(w)]
            elif run == 'col':
                i = int(rng.integers(0, w))
                forced = [(i, j) for j in range(hgt)]
            elif run == 'left-col':
                forced = [(0, j) for j in range(hgt)]
            elif run == 'bottom-row':
                forced = [(i, 0) for i in range(w)]
            else:
                m = min(w, hgt)
                forced = [(i, i) for i in range(m)] if rng.random() < 0.5 else [(i, m - 1 - i) for i in range(m)]
            rest = [c for c in cells if c not in forced]
            extra = max(0, min(k, 14) - len(forced))
            extra = min(extra, len(rest))
            sel = list(forced)
            if extra:
                idx = rng.choice(len(rest), size=extra, replace=False)
                sel += [rest[int(i)] for i in idx]
            if len(sel) < 3:
                sel += [c for c in rest if c not in sel][:3 - len(sel)]
            cls = 'grid-run'
        else:
            idx = rng.choice(len(cells), size=k, replace=False)
            sel = [cells[int(i)] for i in idx]
            cls = 'grid-random'
        bx, by = int(rng.integers(-4, 5)), int(rng.integers(-4, 5))
        pts = np.array([[a + bx, b + by] for a, b in sel], dtype=float)
    order = rng.permutation(len(pts))
    return np.ascontiguousarray(pts[order]), cls


def _general(cand):
    m = len(cand)
    for a in range(m):
        for b in range(a + 1, m):
            for c in range(b + 1, m):
                if ((cand[b][0] - cand[a][0]) * (cand[c][1] - cand[a][1])
                        - (cand[c][0] - cand[a][0]) * (cand[b][1] - cand[a][1])) == 0:
                    return False
    return True


FIXED_SETS = [
    [[0, 0], [1, 1], [2, 2], [3, 3]],                       # collinear prefix (D10)
    [[0, 0], [0, 1], [0, 2], [1, 0]],                       # collinear run on the first ray
    [[0, 0], [1, 0], [2, 0], [1, 1]],                       # collinear run on the last ray
    [[0, 0], [2, 2], [2, 0], [0, 2], [1, 1]],               # square + centre
    [[0, 0], [1, 3], [3, 1]],                               # triangle
    [[2, 0], [0, 1], [3, 3]],                               # lowest point is not the leftmost point
    [[0, 0], [0, 3], [3, 3], [3, 0], [1, 0], [2, 0], [0, 1], [3, 2], [1, 3], [1, 1], [2, 2]],
]


def cases(rng, tier, shard, nshards):
    nchain = shard_count(META[f'{tier}_chain'], shard, nshards)
    ngraham = shard_count(META[f'{tier}_graham'], shard, nshards)
    # one long curve per shard in every tier
    yield {'kind': 'chain', 'points': gen.long_spiky(rng, 3000, 6000), 'family': 'long-spiky', 'layout': 'C'}
    for i in range(nchain):
        r = rng.random()
        if r < 0.012:
            pts, fam = faint_vertex_curve(rng)
            yield {'kind': 'chain', 'points': pts, 'family': fam, 'layout': 'i64'}
            continue
        if r < 0.03:
            pts, fam = sweep_back_curve(rng)
        elif r < 0.45:
            pts, fam = exact_curve(rng)
        elif tier == 'thorough' and r < 0.452:
            pts, meta = gen.curve(rng, nmax=3000, nmin=400)
            fam = meta['family']
        elif tier == 'thorough' and r < 0.47:
            pts, meta = gen.curve(rng, nmax=400, nmin=80)
            fam = meta['family']
        elif tier == 'thorough' and r < 0.48:
            pts, fam = exact_curve(rng, n=int(rng.integers(80, 401)))
        else:
            pts, meta = gen.curve(rng, nmax=80)
            fam = meta['family']
        if rng.random() < 0.03:
            # one sample that dwarfs the rest (a cold-start outlier of 1e15 in front of a fine-grained tail): any rescaling
            # or translation of the whole curve by that sample quantises the tail
            pts, fam = exact_curve(rng, n=int(rng.integers(6, 40)))
            pts = pts.copy()
            pts[:, 1] = pts[:, 1] / 64.0
            if rng.random() < 0.5:
                pts[0, 1] = 1e15
            else:
                pts[0, 0] = -1e15
            yield {'kind': 'chain', 'points': pts, 'family': 'giant-first-sample', 'layout': pick(rng, ['C', 'F', 'view'])}
            continue
        if rng.random() < 0.03:
            # integral coordinates of magnitude 1e9..1e10 as int64: orientation products do not fit int64
            yield {'kind': 'chain', 'points': gen.large_int_curve(rng, nmax=40), 'family': 'large-int64', 'layout': 'i64'}
            continue
        yield {'kind': 'chain', 'points': pts, 'family': fam, 'layout': gen.pick_layout(rng, pts)}
    if shard == 0:
        for s in FIXED_SETS:
            yield {'kind': 'graham', 'points': np.array(s, dtype=float), 'cls': 'fixed', 'layout': 'C'}
    for i in range(ngraham):
        pts, cls = point_set(rng)
        yield {'kind': 'graham', 'points': pts, 'cls': cls,
               'layout': 'i64' if cls == 'huge-int64' else gen.pick_layout(rng, pts, p_default=0.5)}


# ---------------------------------------------------------------- driver

def run_case(ctx, mods, case):
    ch = mods['convex_hull']
    pts = gen.present(case['points'], case['layout'])
    ctx.h('layout', case['layout'])
    if case['kind'] == 'chain':
        fam = case['family']
        ctx.h('chain_family', fam)
        n = len(pts)
        ctx.h('chain_n', n if n < 5 else ('5-15' if n < 16 else ('16-80' if n <= 80 else ('81-400' if n <= 400 else '400+'))))
        strict_x = bool(np.all(np.diff(np.asarray(case['points'])[:, 0]) > 0))
        for which in ('lower', 'upper'):
            fn = getattr(ch, f'graham_scan_{which}')
            ok, res = install.guarded(ctx, f'chain:{which}:complete', fn, pts)
            if not ok:
                continue
            ctx.ok(f'chain:{which}:complete')
            try:
                k = len(res)
            except Exception:
                continue
            if strict_x and k >= 3 and k < n:
                ctx.nontriv(case['points'], which)
            if k >= 3 and n <= 12:
                ctx.sample({'routine': f'graham_scan_{which}', 'family': fam, 'layout': case['layout'],
                            'points': case['points'], 'result': res}, cap=6)
    else:
        ctx.h('graham_generator', case['cls'])
        ctx.h('graham_n', len(pts))
        ok, res = install.guarded(ctx, 'graham:complete', ch.graham_scan, pts)
        if ok:
            ctx.ok('graham:complete')
