"""C05 - fixed-size RDP: exact size, nested, greedy (history = the chain k = 0..n+1)."""
import numpy as np

from .. import gen, install, loops, models
from ..common import DISTANCES, EPS, ORDERS, distance, order, pick, shard_count

META = {
    'refill': True,      # cases presented in a reused buffer are followed by a refill of that buffer (runner)
    'rule': ('history = rdp_fixed(P, k) for every k in 0..n+1 on one curve x Distance x Order; consecutive members are '
             'checked for exact size min(max(k,2),n), nesting, the gained index being a farthest interior point of its '
             'segment (independent long-double geometry, noise floor = forward error of the cross-product distance, 64*eps*max(|v0*w1|+|v1*w0|)/|v|; 5 % of the curves with x in bytes (times 2^20..2^40) and y in [0,1]) and that segment attaining the maximal ordering score '
             '(recomputed with the saved primitives on the same slice, ties within 1e-12 relative accepted) among '
             'retained segments with interior points; an online monitor on the _rdp_fixed loop additionally asserts '
             'that the entry about to be popped carries the maximal stored priority. distinct = digest(curve, '
             'distance, order); non-trivial = chain with >= 3 greedy steps taken while >= 2 segments competed'),
    'require': {'size': 6000, 'greedy': 3000, 'online-pop-max': 3000, 'nontrivial': 60},
    'scale': {'quick': 1, 'thorough': 45},
    'quick_cases': 960, 'thorough_cases': 18000,
    'assumptions': ['priorities are recomputed with the library\'s own primitives on equal-valued slices (bit-identical)',
                    'the first split (root seed has priority 0) is exempt from the priority clause'],
}


def priority(mods, pts, a, b, distname, ordname):
    """Ordering score of the retained segment [a,b] (inclusive), as the implementation stores it."""
    seg = pts[a:b + 1]
    dist = install.orig('linear_fit', 'shortest_distance_points' if distname == 'shortest'
                        else 'perpendicular_distance_points')
    if ordname == 'triangle':
        base = np.linalg.norm(seg[0] - seg[-1])
        return 0.5 * base * dist(seg, seg[0], seg[-1]).max()
    if ordname == 'area':
        return np.sum(dist(seg, seg[0], seg[-1]))
    return install.orig('linear_fit', 'linear_fit_residuals_points')(seg)


def priority_model(seg, distname, ordname):
    """(value, tolerance) of the ordering score from its definition (long double), or None when ill-conditioned."""
    if ordname == 'segment':
        return models.endpoint_line_cost(seg, 'rss')
    g = geo_dist(seg, distname)
    if not np.all(np.isfinite(g)):
        return None
    base = float(np.hypot(*(np.asarray(seg[-1], float) - np.asarray(seg[0], float))))
    sc = float(np.max(np.abs(np.asarray(seg, dtype=float) - np.asarray(seg[0], dtype=float)))) + base      # translation invariant
    if ordname == 'triangle':
        v = 0.5 * base * float(g.max())
        return v, 1e-9 * v + 64 * EPS * sc * base
    v = float(np.sum(g))
    return v, 1e-9 * v + 64 * EPS * sc * len(g)


def geo_dist(seg, kind):
    """Distance of every point of seg to its chord: closed segment ('shortest') or infinite line ('perpendicular')."""
    P = np.asarray(seg, dtype=np.longdouble)
    ab = P[-1] - P[0]
    ap = P - P[0]
    L2 = ab[0] * ab[0] + ab[1] * ab[1]
    if L2 == 0:
        return np.asarray(np.hypot(ap[:, 0], ap[:, 1]), dtype=float)
    if kind == 'perpendicular':
        return np.asarray(np.abs(ab[0] * ap[:, 1] - ab[1] * ap[:, 0]) / np.sqrt(L2), dtype=float)
    # foot of the perpendicular inside the chord: the perpendicular distance (cross product form - subtracting t*ab from ap
    # would leave a residue of ~1e-19*|ap| of its own); otherwise the distance to the nearer end point
    t = (ap[:, 0] * ab[0] + ap[:, 1] * ab[1]) / L2
    perp = np.abs(ab[0] * ap[:, 1] - ab[1] * ap[:, 0]) / np.sqrt(L2)
    bp = P - P[-1]
    d = np.where(t <= 0, np.hypot(ap[:, 0], ap[:, 1]), np.where(t >= 1, np.hypot(bp[:, 0], bp[:, 1]), perp))
    return np.asarray(d, dtype=float)


def pop_max_hook(ctxbox):
    def hook(self, key, frame, loc, count):
        ctx = ctxbox[0]
        stack = loc.get('stack')
        length = loc.get('length')
        if not stack or length is None or length <= 0:
            return
        pr = [float(s[0]) for s in stack]
        if any(p != p for p in pr):
            ctx.ood('online-pop-max', 'nan-priority')
            return
        ctx.check(pr[-1] == max(pr), 'online-pop-max', 'greedy:online-pop-not-max',
                  f'_rdp_fixed is about to pop priority {pr[-1]!r} while the stack holds {max(pr)!r}',
                  stack=[(float(a), int(b), int(c)) for a, b, c in stack][:20])
    return hook


def setup(ctx, mods):
    lm = loops.LoopMonitor(ctx)
    lm.add_module('rdp', mods['rdp'], {
        'rdp': {'bounds': {0: loops.rdp_bound}},
        '_rdp_fixed': {'bounds': {0: loops.fixed_bound}, 'hooks': {0: pop_max_hook([ctx])}},
        '_grdp': {'bounds': {0: loops.fixed_bound}},
    })
    return {'loops': lm}


def cases(rng, tier, shard, nshards):
    total = META['quick_cases'] if tier == 'quick' else META['thorough_cases']
    # long ranges (thousands of points) whose farthest point is a feature a few samples wide; the first members only
    for _ in range(1 if tier == 'quick' else 4):
        yield {'points': gen.long_spiky(rng), 'family': 'long-spiky', 'layout': 'C', 'distance': pick(rng, DISTANCES),
               'order': pick(rng, ORDERS), 'kmax': int(rng.integers(8, 16))}
    if shard == 0:
        # one curve longer than 65 536 points (blocked evaluation over very long segments), first members of the chain only;
        # the decisive features sit in the last third of the curve
        n = int(rng.integers(70000, 110000))
        x = np.arange(n, dtype=float)
        c = int(rng.integers(int(0.8 * n), n - 100))
        y = np.where(np.arange(n) < c, 1000.0 - 0.001 * x, 1000.0 - 0.001 * c - 0.05 * (x - c)) + 50.0
        yield {'points': np.ascontiguousarray(np.column_stack((x, np.round(y, 4)))), 'family': 'very-long-late-knee', 'layout': 'C',
               'distance': pick(rng, DISTANCES), 'order': pick(rng, ORDERS), 'kmax': 5}
    for i in range(shard_count(total, shard, nshards)):
        r = rng.random()
        if tier == 'thorough' and r < 0.004:
            pts, meta = gen.curve(rng, nmax=400, nmin=200)
        elif tier == 'thorough' and r < 0.06:
            pts, meta = gen.curve(rng, nmax=150, nmin=60)
        else:
            pts, meta = gen.curve(rng, nmax=60)
        c = {'points': pts, 'family': meta['family'], 'layout': gen.pick_layout(rng, pts),
             'distance': pick(rng, DISTANCES), 'order': pick(rng, ORDERS)}
        if rng.random() < 0.04:
            # int64 magnitudes 1e9..1e10: products of two coordinate differences do not fit int64
            c.update({'points': gen.large_int_curve(rng, nmax=40), 'family': 'large-int64', 'layout': 'i64'})
        if rng.random() < 0.05 and c['family'] != 'large-int64':
            # a miss-ratio curve over cache sizes in bytes: x scaled by 2^20..2^40 (exact), y scaled into [0, 1] - the chord
            # is ~1e6..1e12 long while every deviation from it is below 1: tolerances tied to the chord length show here
            p2 = np.array(pts, dtype=float)
            p2[:, 0] = (p2[:, 0] - p2[0, 0] + 1.0) * float(2 ** int(rng.integers(20, 41)))
            ymax = float(np.max(np.abs(p2[:, 1])))
            if ymax > 0:
                p2[:, 1] = p2[:, 1] / (2.0 ** np.ceil(np.log2(ymax))) * float(pick(rng, [1.0, 1.0, 2.0 ** -10]))
            if np.all(np.isfinite(p2)) and np.all(np.diff(p2[:, 0]) > 0):
                c.update({'points': np.ascontiguousarray(p2), 'family': c['family'] + '+byte-scale-x',
                          'layout': pick(rng, ['C', 'F', 'view'])})
        if rng.random() < 0.35 and len(pts) <= 40:
            # history: a second chain on the SAME array under another distance / ordering (state kept between
            # calls must not leak from one configuration into the next)
            c['follow'] = {'distance': pick(rng, DISTANCES), 'order': pick(rng, ORDERS)}
        yield c


def run_case(ctx, mods, case):
    pts = gen.present(case['points'], case['layout'])
    run_chain(ctx, mods, case, pts, case['distance'], case['order'])
    if case.get('follow'):
        ctx.h('history', 'second chain on the same array')
        run_chain(ctx, mods, case, pts, case['follow']['distance'], case['follow']['order'])


def run_chain(ctx, mods, case, pts, dn, on):
    rdp = mods['rdp']
    n = len(pts)
    d, o = distance(mods, dn), order(mods, on)
    prev = None
    steps_competing = 0
    chain_ok = True
    for k in range(0, min(n + 2, case.get('kmax', n + 2))):
        ok, res = install.guarded(ctx, 'complete:rdp.rdp_fixed', rdp.rdp_fixed, pts, k, d, o)
        if not ok:
            chain_ok = False
            break
        S = np.asarray(res[0])
        want = min(max(k, 2), n)
        if not ctx.check(len(S) == want and len(set(S.tolist())) == len(S), 'size', 'size:rdp.rdp_fixed',
                         f'rdp_fixed(length={k}) returned {len(S)} indices ({len(set(S.tolist()))} distinct), expected {want} (n={n})',
                         k=k, n=n, reduced=S[:60], distance=dn, order=on):
            chain_ok = False
            break
        if prev is not None and len(prev) < len(S):
            pset, sset = set(prev.tolist()), set(S.tolist())
            if not ctx.check(pset < sset and len(sset - pset) == 1, 'nested', 'nested:rdp.rdp_fixed',
                             f'S_{k - 1} is not contained in S_{k} with exactly one gained index',
                             k=k, prev=prev[:60], cur=S[:60], distance=dn, order=on):
                chain_ok = False
                break
            g = int((sset - pset).pop())
            j = int(np.searchsorted(prev, g))
            a, b = int(prev[j - 1]), int(prev[j])
            if not ctx.check(a < g < b, 'greedy', 'greedy:not-interior', f'gained index {g} not strictly inside a retained segment',
                             k=k, g=g, prev=prev[:60]):
                chain_ok = False
                break
            seg = pts[a:b + 1]
            dd = geo_dist(seg, dn)       # independent geometry (long double), not the library's distance primitive
            dmax = float(np.max(dd[1:-1]))
            tol = models.farthest_tol(seg, dn)
            slack = (dmax - float(dd[g - a])) / tol
            ctx.mx('farthest_slack_over_tol', slack)
            ctx.check(dd[g - a] >= dmax - tol, 'greedy', 'greedy:not-farthest',
                      f'gained index {g} in segment [{a},{b}] is at distance {float(dd[g - a])!r}, farthest interior point at {dmax!r}',
                      k=k, g=g, segment=[a, b], distance=dn, order=on)
            cand = [(int(prev[i]), int(prev[i + 1])) for i in range(len(prev) - 1) if prev[i + 1] - prev[i] >= 2]
            if len(prev) > 2:          # the first split is exempt (root seed carries priority 0)
                pr = {ab: float(priority(mods, pts, ab[0], ab[1], dn, on)) for ab in cand}
                if any(v != v for v in pr.values()):
                    ctx.ood('greedy', 'nan-priority')
                else:
                    for ab in cand[:3]:       # the shared ordering primitives against their definitions
                        pm = priority_model(pts[ab[0]:ab[1] + 1], dn, on)
                        if pm is None:
                            ctx.ood('order-model', 'ill-conditioned')
                            continue
                        ctx.mx('order_model_err_over_tol', abs(pr[ab] - pm[0]) / (pm[1] + 1e-300))
                        ctx.check(abs(pr[ab] - pm[0]) <= pm[1], 'order-model', f'primitive:order-model:{on}',
                                  f'ordering score ({on}) of segment {list(ab)} is {pr[ab]!r}; its definition gives {pm[0]!r} (tol {pm[1]:.3g})',
                                  k=k, segment=list(ab), distance=dn, order=on)
                    best = max(pr.values())
                    mine = pr[(a, b)]
                    ctx.check(mine >= best - 1e-12 * abs(best), 'greedy', 'greedy:not-max-priority',
                              f'segment [{a},{b}] was refined with ordering score {mine!r} while {max(pr, key=pr.get)} scores {best!r} ({on})',
                              k=k, g=g, segment=[a, b], priorities={str(x): v for x, v in list(pr.items())[:12]},
                              distance=dn, order=on)
                    if len(cand) >= 2:
                        steps_competing += 1
        prev = S
    ctx.h('order_x_distance', f'{on}/{dn}')
    ctx.h('n', n if n < 6 else ('6-20' if n <= 20 else ('21-60' if n <= 60 else '61+')))
    if chain_ok and steps_competing >= 3:
        ctx.nontriv(case['points'], dn, on)
        ctx.sample({'family': case['family'], 'n': n, 'distance': dn, 'order': on,
                    'points_head': case['points'][:6], 'S_5': rdp.rdp_fixed(pts, 5, d, o)[0],
                    'greedy_steps_with_competition': steps_competing})
