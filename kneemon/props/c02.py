"""C02 - recursive multi-knee detection terminates, is well-formed and self-similar."""
import numpy as np

from .. import gen, install, loops, models
from ..common import pick, shard_count

META = {
    'refill': True,      # cases presented in a reused buffer are followed by a refill of that buffer (runner)
    'rule': ('cases = curve (12 families, n 4..80, thorough to 3000) x detector in {curvature, dfdt, menger, lmethod, '
             'kneedle} x t1 = 10^U(-4,-1) x t2 = detector minimum + {0,1,2}; the monitor on multi_knee.multi_knee recomputes '
             'the documented recursion with the very detector callable it was handed and the library\'s own SMAPE '
             'primitive and demands exact equality, plus range/ordering and loop bounds. distinct = digest(curve, detector, '
             't1, t2); non-trivial = at least 2 knees returned (recursion depth >= 2)'),
    'require': {'recursion': 2500, 'range': 2500, 'nontrivial': 400},
    'scale': {'quick': 1, 'thorough': 60},
    'quick_cases': 10000, 'thorough_cases': 240000,
    'assumptions': ['the single-knee detectors are deterministic (C20 decides that)',
                    'only the default straightness metric (SMAPE) is exercised: no bundled detector passes another one'],
}

DETECTORS = ['curvature', 'dfdt', 'menger', 'lmethod', 'kneedle']
T2MIN = {'curvature': 3, 'dfdt': 3, 'menger': 4, 'lmethod': 4, 'kneedle': 3}

LAST = {}


def spec(get_knee, pts, t1, t2, gate=None):
    """The documented recursion, iteratively; returns (sorted indices, max depth)."""
    smape_points = install.orig('linear_fit', 'smape_points')
    fit = install.orig('linear_fit', 'linear_fit_points')
    out = []
    depth = 0
    work = [(0, len(pts), 1)]
    while work:
        left, right, dep = work.pop()
        pt = pts[left:right]
        if len(pt) <= t2:
            continue
        r = smape_points(pt, fit(pt))
        if gate is not None:
            gate(pt, r)
        if not (r >= t1):
            continue
        k = get_knee(pt)
        if k is None:
            continue
        depth = max(depth, dep)
        k = int(k)
        out.append(left + k)
        work.append((left, left + k + 1, dep + 1))
        work.append((left + k + 1, right, dep + 1))
    return sorted(out), depth


def smape_model(pt):
    return models.endpoint_line_cost(pt, 'smape')


def setup(ctx, mods):
    def gate(pt, r):
        mod = smape_model(pt)
        if mod is None:
            ctx.ood('gate-model', 'ill-conditioned')
            return
        v, tol = mod
        ctx.mx('gate_err_over_tol', abs(float(r) - v) / (tol + 1e-300))
        ctx.check(abs(float(r) - v) <= tol, 'gate-model', 'gate:smape-model',
                  f'the straightness gate evaluated an endpoint-line SMAPE of {float(r)!r}; the definition gives {v!r} (tol {tol:.3g})',
                  segment_head=np.asarray(pt)[:6], n=len(pt))

    def post(ctx, original, args, kwargs, result):
        names = ['get_knee', 'points', 't1', 't2', 'cost']
        a = {'t1': 0.001, 't2': 3, 'cost': mods['metrics'].Metrics.smape}
        a.update(dict(zip(names, args)))
        a.update(kwargs)
        if a['cost'] is not mods['metrics'].Metrics.smape:
            ctx.ood('recursion', 'non-default-straightness-metric')
            return
        gk, pts, t1, t2 = a['get_knee'], a['points'], a['t1'], a['t2']
        det = getattr(gk, '__module__', '?').rsplit('.', 1)[-1]
        n = len(pts)
        res = np.asarray(result)
        lo = 0 if det == 'menger' else 1
        okr = res.ndim == 1 and (len(res) == 0 or (np.issubdtype(res.dtype, np.integer)
                                                   and np.all(np.diff(res) > 0) and res[0] >= lo and res[-1] <= n - 2))
        ctx.check(okr, 'range', f'range:{det}.multi_knee',
                  f'multi-knee result is not a strictly increasing index array inside [{lo}, {n - 2}]: {res.tolist()[:40]}',
                  detector=det, t1=t1, t2=t2, n=n)
        # "k is the detector's single-knee answer": the detector's public knee(), not whatever callable the wrapper handed in
        single = mods[det].knee if det in DETECTORS else gk
        want, depth = spec(single, pts, t1, t2, gate)
        LAST['depth'] = depth
        LAST['count'] = len(want)
        ctx.check(res.tolist() == want if res.ndim == 1 else False, 'recursion', f'recursion:{det}.multi_knee',
                  f'multi-knee result differs from the documented recursion: got {res.tolist()[:40]}, expected {want[:40]}',
                  detector=det, t1=t1, t2=t2, n=n)
    install.monitor(ctx, 'multi_knee', 'multi_knee', post)
    return {'loops': loops.standard(ctx, mods)}


def cases(rng, tier, shard, nshards):
    from .. import boot
    mods = boot.modules()
    total = META['quick_cases'] if tier == 'quick' else META['thorough_cases']
    # one long, one-sidedly nested curve per shard: every knee lies in the first few points of what is left, so the
    # decomposition is a chain about n/2 levels deep
    n = int(rng.integers(2600, 3600))
    x = np.arange(1, n + 1, dtype=float)
    yield {'points': np.ascontiguousarray(np.column_stack((x, 1000.0 / (1.0 + x)))), 'family': 'hyperbola-long',
           'layout': 'C', 'detector': 'curvature', 't1': 1e-4, 't2': 3}
    # long, almost straight curves whose whole deviation from the endpoint line sits in a few consecutive samples: any
    # estimate of the straightness gate from a subsample of a long segment misses it; t1 just below the true SMAPE
    for _ in range(3 if tier == 'quick' else 6):
        n = int(rng.integers(2100, 5200))
        x = np.arange(1, n + 1, dtype=float) * float(pick(rng, [1.0, 1.0, 4096.0]))
        y = 1000.0 - 800.0 * (x - x[0]) / (x[-1] - x[0])
        for _k in range(int(rng.integers(1, 3))):
            c, w = int(rng.integers(n // 10, n - n // 10)), int(rng.integers(2, 8))
            y[c:c + w] *= float(rng.uniform(0.1, 0.5))
        pts = np.ascontiguousarray(np.column_stack((x, y)))
        with install.quiet():
            v = float(mods['linear_fit'].smape_points(pts, mods['linear_fit'].linear_fit_points(pts)))
        yield {'points': pts, 'family': 'long-line-with-dropout', 'layout': 'C', 'detector': pick(rng, DETECTORS),
               't1': v * float(rng.uniform(0.5, 0.9)), 't2': 3 + int(rng.integers(0, 3))}
    for i in range(shard_count(total, shard, nshards)):
        r = rng.random()
        if tier == 'thorough' and r < 0.004:
            pts, meta = gen.curve(rng, nmax=3000, nmin=600)
        elif tier == 'thorough' and r < 0.06:
            pts, meta = gen.curve(rng, nmax=500, nmin=80)
        elif r > 0.985:
            pts, meta = gen.curve(rng, nmax=600, nmin=150)     # deep recursions also in the quick tier
        else:
            pts, meta = gen.curve(rng, nmax=80, nmin=3)
        det = pick(rng, DETECTORS)
        t1 = float(10.0 ** rng.uniform(-4, -1))
        u = rng.random()
        if u < 0.06:
            t1 = 0.0                      # the quantifier allows t1 >= 0: every segment longer than t2 is refined
        if u < 0.12 and len(pts) <= 80:   # exactly collinear (sub)curves: Menger legitimately answers index 0 there
            det = 'menger' if rng.random() < 0.6 else det
            pts, meta = gen.curve(rng, nmax=60, nmin=5, family='collinear0')
        lay = gen.pick_layout(rng, pts)
        if rng.random() < 0.04:
            # integral coordinates of magnitude 1e9..1e13 as int64 (bytes, ns): the recursion must use the detector's answer
            # on the very representation it was given, whatever int64 arithmetic makes of it
            pts, meta, lay = gen.large_int_curve(rng, nmax=60), {'family': 'large-int64'}, 'i64'
            if rng.random() < 0.5:
                pts = pts * np.array([1.0, float(10 ** int(rng.integers(1, 4)))])
        if rng.random() < 0.15 and len(pts) > 5:
            # exact tie: t1 equal to the realised SMAPE of the curve or of a prefix (>= vs > is observable)
            sub = gen.present(pts, lay)[:len(pts) if rng.random() < 0.6 else int(rng.integers(5, len(pts) + 1))]
            with install.quiet():
                v = float(mods['linear_fit'].smape_points(sub, mods['linear_fit'].linear_fit_points(sub)))
            if np.isfinite(v) and v > 0:
                t1 = v
        c = {'points': pts, 'family': meta['family'], 'layout': lay, 'detector': det,
             't1': t1, 't2': T2MIN[det] + (int(rng.integers(0, 3)) if rng.random() < 0.85 else int(rng.integers(3, 40)))}
        if rng.random() < 0.25 and len(pts) <= 120:     # history: another detector / thresholds on the SAME array
            d2 = pick(rng, DETECTORS)
            c['follow'] = {'detector': d2, 't1': float(10.0 ** rng.uniform(-4, -1)), 't2': T2MIN[d2] + int(rng.integers(0, 3))}
        yield c


def run_case(ctx, mods, case):
    pts = gen.present(case['points'], case['layout'])
    run_step(ctx, mods, case, pts)
    if case.get('follow'):
        ctx.h('history', 'second detector on the same array')
        run_step(ctx, mods, dict(case['follow'], points=case['points'], family=case['family']), pts)


def run_step(ctx, mods, case, pts):
    det = case['detector']
    LAST.clear()
    ok, res = install.guarded(ctx, f'complete:{det}.multi_knee', mods[det].multi_knee, pts, case['t1'], case['t2'])
    if not ok:
        return
    ctx.ok('complete')
    ctx.h('detector', det)
    c = LAST.get('count', 0)
    ctx.h('knees', c if c < 5 else ('5-19' if c < 20 else '20+'))
    ctx.h('recursion_depth', LAST.get('depth', 0) if LAST.get('depth', 0) < 8 else '8+')
    if len(np.asarray(res)) and int(np.asarray(res)[0]) == 0:
        ctx.h('first_knee_is_index_0', det)
    if c >= 2:
        ctx.nontriv(case['points'], det, case['t1'], case['t2'])
        ctx.sample({'family': case['family'], 'n': len(pts), 'detector': det, 't1': case['t1'], 't2': case['t2'],
                    'points_head': case['points'][:6], 'knees': np.asarray(res)[:20]})
