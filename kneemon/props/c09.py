"""C09 - each single-knee detector returns the interior optimum of its stated criterion."""
import math

import numpy as np

from .. import gen, install, loops
from ..common import EPS, pick, shard_count

LD = np.longdouble

META = {
    'refill': True,      # cases presented in a reused buffer are followed by a refill of that buffer (runner)
    'rule': ('cases = curve (12 families, magnitudes capped at 1e15, n 3..80 / 5..80 for the L-method, thorough to 2000) x '
             'detector configuration: curvature.knee; dfdt.knee and dfdt.get_knee; menger.knee; lmethod.get_knee x Fit x Cost; '
             'lmethod.knee x Fit x Refinement x limit in 4..12. Reference models: curvature from uts.gradient on the same data; '
             'DFDT = executable model of the documented cutoff loop; Menger = independent long-double reciprocal circumradius; '
             'L-method = independent long-double two-line error over splits 2..n-3 with the error floor n*(eps*|y|max)^2; '
             'refinement = loop monitor (<= n+2 iterations). distinct = digest(curve, detector configuration); '
             'non-trivial = non-collinear curve (some consecutive triple has a cross product above the rounding floor)'),
    'require': {'curvature': 500, 'dfdt': 500, 'menger': 500, 'lmethod.get_knee': 500, 'lmethod.knee': 500, 'nontrivial': 1500},
    'scale': {'quick': 1, 'thorough': 150},
    'quick_cases': 9000, 'thorough_cases': 800000,
    'assumptions': ['lmethod.knee with limit <= 3 is outside the domain (the truncated curve falls below the 5 points the method needs)',
                    'the L-method error is the library\'s documented length-weighted form (weight*sqrt(weight*RSS) / weight*RSS)',
                    'uts.gradient / uts.thresholding (installed dependency) are taken as given'],
}

DETS = ['curvature', 'dfdt', 'dfdt.get_knee', 'menger', 'lmethod.get_knee', 'lmethod.knee']


def noncollinear(pts):
    p = np.asarray(pts, dtype=float)
    if len(p) < 3:
        return False
    a, b, c = p[:-2], p[1:-1], p[2:]
    t1 = (b[:, 0] - a[:, 0]) * (c[:, 1] - b[:, 1])
    t2 = (b[:, 1] - a[:, 1]) * (c[:, 0] - b[:, 0])
    return bool(np.any(np.abs(t1 - t2) > 64 * EPS * (np.abs(t1) + np.abs(t2)) + 1e-300))


# ---------------------------------------------------------------- curvature

def check_curvature(ctx, mods, pts, k):
    import uts.gradient as grad
    n = len(pts)
    # the criterion is defined over the reals: the dependency's derivative routines are handed float64 values, never a
    # wrapping integer dtype
    x, y = np.asarray(pts[:, 0], dtype=float), np.asarray(pts[:, 1], dtype=float)
    g1, g2 = grad.cfd(x, y), grad.csd(x, y)
    kap = np.absolute(g2) / ((1.0 + g1 ** 2.0) ** 1.5)
    if not np.all(np.isfinite(kap[1:-1])):
        ctx.ood('curvature', 'non-finite-curvature')
        return
    if not ctx.check(isinstance(k, (int, np.integer)) and 1 <= k <= n - 2, 'curvature', 'interior:curvature.knee',
                     f'curvature.knee returned {k!r}, not an interior index of {n} points'):
        return
    best = float(np.max(kap[1:-1]))
    ctx.check(kap[k] >= best, 'curvature', 'optimum:curvature.knee',
              f'curvature at returned index {int(k)} is {float(kap[k])!r}, interior maximum is {best!r} at {int(np.argmax(kap[1:-1])) + 1}',
              k=int(k))


# --------------------------------------------------------------------- DFDT

def dfdt_step(g):
    import uts.thresholding as thresh
    T = thresh.isodata(g)
    diff = np.absolute(g - T)
    inner = diff[1:-1]
    k = int(np.argmin(inner)) + 1
    tie = int(np.sum(inner == inner.min())) > 1
    return k, tie, diff


def check_dfdt(ctx, mods, pts, k, refine):
    import uts.gradient as grad
    n = len(pts)
    x, y = np.asarray(pts[:, 0], dtype=float), np.asarray(pts[:, 1], dtype=float)
    g = grad.cfd(x, y)
    if not np.all(np.isfinite(g)):
        ctx.ood('dfdt', 'non-finite-gradient')
        return
    name = 'dfdt.knee' if refine else 'dfdt.get_knee'
    if not ctx.check(isinstance(k, (int, np.integer)) and 1 <= k <= n - 2, 'dfdt', f'interior:{name}',
                     f'{name} returned {k!r}, not an interior index of {n} points'):
        return
    ties = False
    if not refine:
        want, ties, diff = dfdt_step(g)
        if ties and k != want:
            ctx.check(diff[k] == diff[want], 'dfdt', f'optimum:{name}', f'{name} returned {int(k)} whose |g-T| {float(diff[k])!r} '
                                                                       f'is not the interior minimum {float(diff[want])!r}')
            return
    else:
        knee = cutoff = 0
        last = -1
        it = 0
        while last < knee and (n - cutoff) > 2:
            last = knee
            kk, tie, _ = dfdt_step(g[cutoff:])
            ties = ties or tie
            knee = kk + cutoff
            cutoff = int(math.ceil(knee / 2.0))
            it += 1
            if it > n + 2:
                break
        want = knee
        ctx.h('dfdt_rounds', it)
    if k != want and ties:
        ctx.ood('dfdt', 'tie-in-argmin')
        return
    ctx.check(k == want, 'dfdt', f'optimum:{name}',
              f'{name} returned {int(k)}, the documented procedure (ISODATA threshold, interior argmin, cutoff=ceil(k/2)) gives {want}',
              k=int(k), want=int(want))


# ------------------------------------------------------------------- Menger

def menger_model(pts):
    p = np.asarray(pts, dtype=LD)
    a, b, c = p[:-2], p[1:-1], p[2:]
    t1 = (b[:, 0] - a[:, 0]) * (c[:, 1] - b[:, 1])
    t2 = (b[:, 1] - a[:, 1]) * (c[:, 0] - b[:, 0])
    cross = np.abs(t1 - t2)
    ab = np.hypot(b[:, 0] - a[:, 0], b[:, 1] - a[:, 1])
    bc = np.hypot(c[:, 0] - b[:, 0], c[:, 1] - b[:, 1])
    ca = np.hypot(a[:, 0] - c[:, 0], a[:, 1] - c[:, 1])
    den = ab * bc * ca
    M = 2 * cross / den
    noise = 2 * 16 * LD(EPS) * (np.abs(t1) + np.abs(t2)) / den
    return np.asarray(M, dtype=float), float(np.max(noise))


def check_menger(ctx, mods, pts, k):
    n = len(pts)
    if not ctx.check(isinstance(k, (int, np.integer)) and 0 <= k <= n - 1, 'menger', 'interior:menger.knee',
                     f'menger.knee returned {k!r} for {n} points'):
        return
    M, floor = menger_model(pts)
    if not np.all(np.isfinite(M)):
        ctx.ood('menger', 'non-finite-curvature')
        return
    best = float(np.max(M))
    tol = 1e-9 * best + floor
    if k == 0 or k == n - 1:
        ctx.check(best <= tol, 'menger', 'optimum:menger.knee',
                  f'menger.knee returned the end index {int(k)} although an interior triple has Menger curvature {best!r} '
                  f'(at {int(np.argmax(M)) + 1}, rounding floor {floor!r})', k=int(k))
        return
    mine = float(M[k - 1])
    ctx.mx('menger_gap_over_tol', (best - mine) / (tol + 1e-300))
    ctx.check(mine >= best - tol, 'menger', 'optimum:menger.knee',
              f'Menger curvature at returned index {int(k)} is {mine!r}, the maximum over consecutive triples is {best!r} at {int(np.argmax(M)) + 1}',
              k=int(k))


# ----------------------------------------------------------------- L-method

def _rss_endpoint(x, y):
    dx = x[0] - x[-1]
    if dx != 0:
        m = (y[0] - y[-1]) / dx
        b = y[0] - m * x[0]
    else:
        m = b = LD(0)
    return np.sum((y - (x * m + b)) ** 2)


def _rss_lstsq(x, y):
    xm, ym = np.mean(x), np.mean(y)
    sxx = np.sum((x - xm) ** 2)
    m = np.sum((x - xm) * (y - ym)) / sxx if sxx != 0 else LD(0)
    b = ym - m * xm
    return np.sum((y - (x * m + b)) ** 2)


def lmethod_errors(x, y, fit, cst):
    x = np.asarray(x, dtype=LD)
    y = np.asarray(y, dtype=LD)
    n = len(x)
    L = x[-1] - x[0]
    rss = _rss_lstsq if fit == 'bestfit' else _rss_endpoint
    errs = {}
    for i in range(2, n - 2):
        lr = (x[i] - x[0]) / L
        rr = (x[-1] - x[i]) / L
        rl, rr_ = rss(x[:i + 1], y[:i + 1]), rss(x[i:], y[i:])
        rl = rl if rl > 0 else LD(0)
        rr_ = rr_ if rr_ > 0 else LD(0)
        if cst == 'rmse':
            errs[i] = float(lr * np.sqrt(rl * lr) + rr * np.sqrt(rr * rr_))
        else:
            errs[i] = float(rl * lr + rr_ * rr)
    return errs


def check_lmethod_get_knee(ctx, mods, x, y, k, fit, cst, label='lmethod.get_knee'):
    n = len(x)
    if not ctx.check(isinstance(k, (int, np.integer)) and 2 <= k <= n - 3, label, f'interior:{label}',
                     f'{label} returned {k!r}, outside the split range [2, {n - 3}]', fit=fit, cost=cst):
        return
    errs = lmethod_errors(x, y, fit, cst)
    vals = np.array(list(errs.values()))
    if not np.all(np.isfinite(vals)):
        ctx.ood(label, 'non-finite-error')
        return
    ymax = float(np.max(np.abs(y)))
    xr = float(np.max(np.abs(x))) / max(float(np.min(np.diff(np.asarray(x, float)))), 1e-300)
    # float64 evaluates y_hat = m*x + b with an absolute error delta ~ eps*|y|max*(1 + |x|max/gap); a residual sum of
    # squares R then carries n*delta^2 (what is left on collinear data) PLUS the cross term 2*delta*sqrt(n*R), which
    # dominates when the curve sits on a large base level; sqrt(R) carries ~sqrt(n)*delta
    delta = 16 * EPS * ymax * (1.0 + xr)
    base = n * delta ** 2
    floor = (base + 4 * delta * math.sqrt(n * max(float(vals.max()), 0.0))) if cst == 'rss' else 3 * math.sqrt(base)
    best = float(vals.min())
    tol = 1e-9 * float(vals.max()) + floor
    ctx.mx(f'lmethod_gap_over_tol:{fit}:{cst}', (errs[int(k)] - best) / (tol + 1e-300))
    ctx.check(errs[int(k)] <= best + tol, label, f'optimum:{label}:{fit}:{cst}',
              f'{label}({fit},{cst}) returned split {int(k)} with error {errs[int(k)]!r}; split {min(errs, key=errs.get)} has {best!r}',
              k=int(k), fit=fit, cost=cst)


def setup(ctx, mods):
    return {'loops': loops.standard(ctx, mods)}


def isodata_iterations(a, eps=1e-6, cap=200):
    """Number of updates the ISODATA fixed-point iteration needs on array a (same scheme as uts.thresholding)."""
    a = np.asarray(a, dtype=float)
    if a.size == 0:
        return 0
    th = float(np.mean(a))
    for it in range(1, cap + 1):
        lo, hi = a[a <= th], a[a > th]
        if lo.size == 0 or hi.size == 0:
            return it
        new = (float(lo.mean()) + float(hi.mean())) / 2.0
        if abs(new - th) < eps:
            return it
        th = new
    return cap


def slow_isodata_curve(rng):
    """Hostile selection: among a few long, unevenly sampled, noisy 1/x-type curves keep the one whose gradient makes the
    ISODATA iteration converge most slowly (on its full gradient or on the tails the DFDT refinement revisits)."""
    import uts.gradient as grad
    best, score = None, -1
    for _ in range(10):
        n = int(rng.integers(120, 300))
        x = np.cumsum(rng.integers(1, 12, n)).astype(float)
        y = 50.0 / (1.0 + x / float(rng.uniform(5, 60))) + rng.normal(0.0, float(rng.uniform(0.01, 0.5)), n)
        y = np.abs(y)
        g = grad.cfd(x, y)
        sc = max(isodata_iterations(g[c:]) for c in (0, 1, 2, n // 4, n // 2))
        if sc > score:
            best, score = np.ascontiguousarray(np.column_stack((x, y))), sc
    return best, score


def cases(rng, tier, shard, nshards):
    total = META['quick_cases'] if tier == 'quick' else META['thorough_cases']
    # long curves in every tier (size-dependent fast paths, chunking, subsampling only show there)
    for _j in range(4 if tier == 'quick' else 6):
        det = pick(rng, ['curvature', 'dfdt', 'dfdt.get_knee', 'menger']) if _j >= 2 else 'lmethod.get_knee'
        if det == 'lmethod.get_knee':
            # more than 1000 candidate splits
            pts, meta = gen.curve(rng, nmax=1500, nmin=1010, family=pick(rng, ['mrc', 'inv', 'pwl', 'expdecay']))
            if rng.random() < 0.6:
                # integer-quantised samples (counters): the cost over the splits is jagged, its minimiser need not sit next
                # to the minimiser of any smoothed / subsampled version of it
                pts = pts.copy()
                lo, top = float(np.min(pts[:, 1])), float(np.max(pts[:, 1]))
                pts[:, 1] = np.round((pts[:, 1] - lo) / ((top - lo) or 1.0) * float(pick(rng, [60.0, 250.0, 1000.0])))
                meta = dict(meta, family=str(meta['family']) + '+quantised')
        elif rng.random() < 0.5:
            pts, meta = gen.long_spiky(rng), {'family': 'long-spiky'}
        else:
            pts, meta = gen.curve(rng, nmax=8000, nmin=3000, family=pick(rng, ['mrc', 'inv', 'noise', 'expdecay']))
        if det == 'lmethod.get_knee':
            for f_ in ('bestfit', 'pointfit'):          # every fit x cost on the same long curve
                for c_ in ('rmse', 'rss'):
                    yield {'points': pts, 'family': meta['family'], 'layout': 'C', 'detector': det, 'fit': f_, 'cost': c_,
                           'refinement': 'none', 'limit': 10}
            continue
        yield {'points': pts, 'family': meta['family'], 'layout': 'C', 'detector': det,
               'fit': pick(rng, ['bestfit', 'pointfit']), 'cost': pick(rng, ['rmse', 'rss']), 'refinement': 'none', 'limit': 10}
    for i in range(shard_count(total, shard, nshards)):
        det = pick(rng, DETS + ['lmethod.knee', 'lmethod.knee'])      # the refinement loop gets the largest share
        nmin = 5 if det.startswith('lmethod') else 3
        r = rng.random()
        if tier == 'thorough' and r < 0.004:
            pts, meta = gen.curve(rng, nmax=2000, nmin=300)
        elif tier == 'thorough' and r < 0.05:
            pts, meta = gen.curve(rng, nmax=300, nmin=80)
        else:
            pts, meta = gen.curve(rng, nmax=80, nmin=nmin)
        if det == 'lmethod.knee' and rng.random() < 0.25:
            # degenerate curves (all split errors equal up to rounding) are where cutoff cycles of length >= 3 concentrate
            pts, meta = gen.curve(rng, nmax=60, nmin=8, family=pick(rng, ['collinear0', 'const', 'smallint']))
        if det in ('dfdt', 'dfdt.get_knee') and rng.random() < 0.12:
            pts, its = slow_isodata_curve(rng)
            meta = {'family': f'slow-isodata({"20+" if its > 20 else "<=20"} updates)'}
        if len(pts) < nmin:
            pts, meta = gen.curve(rng, nmax=80, nmin=nmin, family='mrc')
        lay = None
        if rng.random() < 0.05:
            # byte counts against a block index as int64: squares of y differences do not fit int64
            pts, meta, lay = gen.tall_int_curve(rng, nmax=60, nmin=max(nmin, 5)), {'family': 'tall-int64'}, 'i64'
        elif rng.random() < 0.04:
            # bytes against microseconds as int64: products of an x difference and a y value do not fit int64
            pts, meta, lay = gen.large_int_curve(rng, nmax=60), {'family': 'large-int64'}, 'i64'
            if len(pts) < nmin:
                pts = gen.large_int_curve(rng, n=12)
        if float(np.max(np.abs(pts))) > 1e15:
            pts = pts.copy()
            pts[:, 1] = pts[:, 1] / 1e4
        yield {'points': pts, 'family': meta['family'], 'layout': lay or gen.pick_layout(rng, pts), 'detector': det,
               'fit': pick(rng, ['bestfit', 'pointfit']), 'cost': pick(rng, ['rmse', 'rss']),
               'refinement': pick(rng, ['none', 'original', 'original', 'original', 'adjusted', 'adjusted']), 'limit': int(rng.integers(4, 13))}


def run_case(ctx, mods, case):
    pts = gen.present(case['points'], case['layout'])
    det = case['detector']
    n = len(pts)
    lm = mods['lmethod']
    key = (det,)
    if det == 'curvature':
        ok, k = install.guarded(ctx, 'complete:curvature.knee', mods['curvature'].knee, pts)
        if ok:
            check_curvature(ctx, mods, pts, k)
    elif det == 'dfdt':
        ok, k = install.guarded(ctx, 'complete:dfdt.knee', mods['dfdt'].knee, pts)
        if ok:
            check_dfdt(ctx, mods, pts, k, True)
    elif det == 'dfdt.get_knee':
        ok, k = install.guarded(ctx, 'complete:dfdt.get_knee', mods['dfdt'].get_knee, pts[:, 0], pts[:, 1])
        if ok:
            check_dfdt(ctx, mods, pts, k, False)
    elif det == 'menger':
        ok, k = install.guarded(ctx, 'complete:menger.knee', mods['menger'].knee, pts)
        if ok:
            check_menger(ctx, mods, pts, k)
    elif det == 'lmethod.get_knee':
        fit, cst = case['fit'], case['cost']
        key = (det, fit, cst)
        ok, res = install.guarded(ctx, 'complete:lmethod.get_knee', lm.get_knee, pts[:, 0], pts[:, 1], lm.Fit(fit), lm.Cost(cst))
        if ok:
            check_lmethod_get_knee(ctx, mods, pts[:, 0], pts[:, 1], res[0], fit, cst)
    else:
        fit, ref, limit = case['fit'], case['refinement'], case['limit']
        key = (det, fit, ref, limit)
        ok, k = install.guarded(ctx, f'complete:lmethod.knee:{ref}', lm.knee, pts, lm.Fit(fit), lm.Refinement(ref), limit)
        if ok:
            ctx.h('refinement', ref)
            ctx.check(isinstance(k, (int, np.integer)) and 2 <= k <= n - 3, 'lmethod.knee', f'interior:lmethod.knee:{ref}',
                      f'lmethod.knee({fit},{ref},limit={limit}) returned {k!r}, outside [2, {n - 3}]', fit=fit, refinement=ref, limit=limit)
            if ref == 'none':      # a single pass is exactly get_knee with the default RMSE cost on the whole curve
                check_lmethod_get_knee(ctx, mods, pts[:, 0], pts[:, 1], k, fit, 'rmse', label='lmethod.knee')
    ctx.h('detector', det)
    if noncollinear(case['points']):
        ctx.nontriv(case['points'], key)
        ctx.sample({'family': case['family'], 'n': n, 'detector': list(key), 'points_head': case['points'][:6]})
