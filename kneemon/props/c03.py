"""C03 - every single-knee detector finds the corner of an exact two-slope elbow (DESIGN.md section 4, C03).

Generator: two straight arms meeting at the interior corner index c = la; la, lb >= 3 segments; x gaps i.i.d. in
{1,2,3,4}; slopes j1/8 != j2/8 with |j| <= 64; y = slope * (x - x_c) + offset, offset = m / 2^e, |m| <= 4096,
e <= 3.  Every coordinate is a multiple of 1/8 below 2^17, hence exactly representable; the elbow is exact.

Monitor: direct postcondition ``result == c`` on curvature.knee, dfdt.knee, menger.knee, lmethod.get_knee (2 fits x
2 costs), lmethod.knee (2 fits x 3 refinements x limit in {4, 10}) and - on monotone elbows (j1 * j2 >= 0) -
kneedle.knee(t=0).  Exceptions escaping a detector are violations keyed by the raising site; the loop monitor bounds
the refinement loops of lmethod.knee and dfdt.knee.
"""
import numpy as np

from .. import gen, install, loops
from ..common import pick, shard_count

META = {
    'rule': ('exact two-slope elbows: arms la, lb >= 3 segments, x gaps i.i.d. in {1,2,3,4}, slopes j1/8 != j2/8 '
             'with |j| <= 64, offset m/2^e (|m| <= 4096, e <= 3, half of them shifted by an integer so that '
             'y >= 0 when the bound on m allows), x0 in 0..8 (30 %: -64..64, the axis may cross zero), layouts {C,F,view,int64 when integral}; quick: '
             'orientation class drawn uniformly from {rising, falling, V, Lambda, flat first arm, flat second arm}, '
             'arms <= 12, plus long elbows of 1010..1400 segments, one per shard with its corner at 2^k - 1, 2^k or 2^k + 1; thorough: every ordered slope pair (129*128) once, arms to 64, plus long arms of '
             '150-2000 segments; each elbow through 19 detector configurations (+ kneedle.knee(t=0) on monotone '
             'elbows); distinct non-trivial = (orientation class, la, lb, j1, j2)'),
    'require': {'elbow:curvature': 500, 'elbow:dfdt': 500, 'elbow:menger': 500,
                'elbow:lmethod.get_knee': 2000, 'elbow:lmethod.knee:none': 2000,
                'elbow:lmethod.knee:original': 2000, 'elbow:lmethod.knee:adjusted': 2000,
                'elbow:kneedle': 300, 'nontrivial': 500},
    'scale': {'quick': 1, 'thorough': 10},
    'shards': {'quick': 8, 'thorough': 16},
    'quick_cases': 4000,
    'long_per_shard': 3,
    'assumptions': [
        'the corner is asserted only inside the stated family (multiples of 1/8, |y| < 2^17): every arm is '
        'exactly collinear in float64, so a detector has no rounding excuse for preferring another index',
        'lmethod.knee is driven with limit in {4, 10} (limit <= 3 is outside the routine\'s domain); its cost '
        'option is not forwarded by the library (always RMSE), so the cost axis is exercised on get_knee',
        'kneedle.knee is asserted only on monotone elbows (j1 * j2 >= 0, one flat arm allowed), t = 0',
        'termination of lmethod.knee / dfdt.knee is decided as a step bound per call (n + 2 / 2n + 8)',
    ],
}

FITS = ['bestfit', 'pointfit']
LCOSTS = ['rss', 'rmse']
REFINEMENTS = ['none', 'original', 'adjusted']
LIMITS = [4, 10]
SHAPES = ['rising', 'falling', 'V', 'Lambda', 'flat-first', 'flat-second']


def orientation(j1, j2):
    conv = 'convex' if j2 > j1 else 'concave'
    if j1 == 0:
        shape = 'flat-first:' + ('rising' if j2 > 0 else 'falling')
    elif j2 == 0:
        shape = ('rising' if j1 > 0 else 'falling') + ':flat-second'
    elif j1 > 0 and j2 > 0:
        shape = 'rising'
    elif j1 < 0 and j2 < 0:
        shape = 'falling'
    elif j1 < 0 < j2:
        shape = 'V'
    else:
        shape = 'Lambda'
    return f'{conv}:{shape}'


def build(x0, gaps, la, j1, j2, m, e):
    """The elbow, every value exact: returns (points, c)."""
    x = float(x0) + np.concatenate(([0.0], np.cumsum(np.asarray(gaps, dtype=float))))
    c = int(la)
    d = x - x[c]
    y = np.where(np.arange(len(x)) <= c, (j1 / 8.0) * d, (j2 / 8.0) * d) + m / float(2 ** e)
    return np.ascontiguousarray(np.column_stack((x, y))), c


def elbow(rng, la, lb, j1, j2):
    gaps = rng.integers(1, 5, la + lb)
    if rng.random() < 0.08 and la + lb >= 6:
        # uneven spacing that looks even from its ends: first step == last step == mean step
        g = int(rng.integers(2, 4))
        gaps = np.full(la + lb, g)
        inner = np.arange(1, la + lb - 1)
        rng.shuffle(inner)
        for a_, b_ in zip(inner[0::2], inner[1::2]):
            if rng.random() < 0.7:
                gaps[a_], gaps[b_] = g - 1, g + 1
    x0 = int(rng.integers(0, 9))
    if rng.random() < 0.3:
        # the x axis may start anywhere (relative time, offsets around a reference): negative origins, axes crossing zero
        x0 = int(rng.integers(-64, 65))
    e = int(rng.integers(0, 4))
    m = int(rng.integers(-4096, 4097))
    shifted = False
    if rng.random() < 0.5:
        # optional integer shift so that y >= 0, kept only when the offset stays inside |m| <= 4096
        pts, _ = build(x0, gaps, la, j1, j2, m, e)
        k = int(np.ceil(max(0.0, -float(pts[:, 1].min()))))
        if abs(m + k * 2 ** e) <= 4096:
            m, shifted = m + k * 2 ** e, k > 0
    pts, c = build(x0, gaps, la, j1, j2, m, e)
    return {'points': pts, 'c': c, 'la': int(la), 'lb': int(lb), 'j1': int(j1), 'j2': int(j2),
            'x0': x0, 'gaps': gaps.astype(np.int64), 'm': m, 'e': e, 'shifted': bool(shifted),
            'cls': orientation(j1, j2), 'layout': gen.pick_layout(rng, pts)}


def slopes_of(rng, shape):
    while True:
        a, b = int(rng.integers(1, 65)), int(rng.integers(1, 65))
        if shape == 'rising':
            j1, j2 = a, b
        elif shape == 'falling':
            j1, j2 = -a, -b
        elif shape == 'V':
            j1, j2 = -a, b
        elif shape == 'Lambda':
            j1, j2 = a, -b
        elif shape == 'flat-first':
            j1, j2 = 0, (a if rng.random() < 0.5 else -a)
        else:
            j1, j2 = (a if rng.random() < 0.5 else -a), 0
        if j1 != j2:
            return j1, j2


def arm(rng, tier):
    if tier == 'quick':
        return int(rng.integers(3, 13))
    r = rng.random()
    if r < 0.15:
        return 3
    if r < 0.70:
        return int(rng.integers(3, 13))
    return int(rng.integers(13, 65))


def cases(rng, tier, shard, nshards):
    if tier == 'quick':
        for i in range(shard_count(META['quick_cases'], shard, nshards)):
            j1, j2 = slopes_of(rng, SHAPES[i % len(SHAPES)])
            if rng.random() < 0.1:                    # nearly equal slopes: the faintest corner
                j2 = j1 + (1 if rng.random() < 0.5 else -1)
                if abs(j2) > 64:
                    j2 = j1 - (j2 - j1)
            la, lb = arm(rng, tier), arm(rng, tier)
            u = rng.random()
            if u < 0.04:
                # exactly symmetric V / peak on uniform spacing: the gradient values sum to exactly zero
                la = lb = int(rng.integers(3, 13))
                a = int(rng.integers(1, 65))
                j1, j2 = (-a, a) if rng.random() < 0.5 else (a, -a)
                e = elbow(rng, la, lb, j1, j2)
                g = int(pick(rng, [1, 2, 4]))
                pts, c = build(e['x0'], np.full(la + lb, g), la, j1, j2, e['m'], e['e'])
                e.update({'points': pts, 'c': c, 'gaps': np.full(la + lb, g, dtype=np.int64), 'cls': e['cls'] + ':symmetric'})
                yield e
                continue
            if u < 0.08:
                # twin elbows: B's straight left arm has the same number of points and the same end points as a BENT prefix
                # of A (state keyed on a segment's size and end points instead of its contents would carry over)
                r = int(rng.integers(3, 9))
                g = int(pick(rng, [1, 2, 4]))
                a1, a2 = int(rng.integers(-60, 61)), int(rng.integers(-60, 61))
                if (a1 + a2) % 2 or a1 == a2:
                    a2 += 1 if a2 < 60 else -1
                    if (a1 + a2) % 2 or a1 == a2:
                        a2 += 2 if a2 < 59 else -2
                s_b = (a1 + a2) // 2
                b2 = s_b + (3 if s_b <= 60 else -3)
                if abs(a1) <= 64 and abs(a2) <= 64 and a1 != a2 and abs(b2) <= 64 and (a1 + a2) % 2 == 0:
                    x0, e_, m_ = int(rng.integers(0, 9)), 3, int(rng.integers(-2000, 2001))
                    lbA = 2 * r + int(rng.integers(3, 8))
                    A = elbow(rng, r, lbA, a1, a2)
                    ptsA, cA = build(x0, np.full(r + lbA, g), r, a1, a2, m_, e_)
                    A.update({'points': ptsA, 'c': cA, 'x0': x0, 'm': m_, 'e': e_, 'gaps': np.full(r + lbA, g, dtype=np.int64),
                              'cls': A['cls'] + ':twin-A', 'layout': 'C'})
                    # B passes through A's first point and through A[2r]; its corner is at index 2r
                    yB0 = float(ptsA[0, 1])
                    lbB = int(rng.integers(3, 9))
                    x = ptsA[0, 0] + g * np.arange(2 * r + lbB + 1, dtype=float)
                    cB = 2 * r
                    yB = np.where(np.arange(len(x)) <= cB, yB0 + (s_b / 8.0) * (x - x[0]),
                                  yB0 + (s_b / 8.0) * (x[cB] - x[0]) + (b2 / 8.0) * (x - x[cB]))
                    if yB[cB] == ptsA[cB, 1]:
                        B = dict(A, points=np.ascontiguousarray(np.column_stack((x, yB))), c=cB, la=cB, lb=lbB, j1=int(s_b), j2=int(b2),
                                 gaps=np.full(2 * r + lbB, g, dtype=np.int64), cls=orientation(s_b, b2) + ':twin-B',
                                 m=m_ + a2 * g * r, shifted=False)
                        yield A
                        yield B
                        continue
            yield elbow(rng, la, lb, j1, j2)
        # a few strongly unbalanced elbows with steep neighbouring slopes (3-5 segments against hundreds): the faint
        # corner sits next to splits whose error differs from it by a few ulps of the long arm's sum of squares
        # one extremely unbalanced monotone elbow per shard: the short arm (unit spacing) covers < 0.1 % of the x range,
        # so the corner's margin in any smoothed / normalised difference curve is tiny (quadratic-time L-method skipped)
        for _ in range(2):
            a, b = int(rng.integers(1, 60)), int(rng.integers(1, 60))
            if a == b:
                b = a + 1
            sgn = 1 if rng.random() < 0.5 else -1
            short, long_ = 3, int(rng.integers(850, 1100))
            e = elbow(rng, short, long_, sgn * a, sgn * b)
            gaps = np.concatenate((np.ones(short + 1, dtype=np.int64), np.full(long_ - 1, 4, dtype=np.int64)))
            m_, e_ = int(rng.integers(-500, 501)), int(rng.integers(0, 4))
            pts, c = build(e['x0'], gaps, short, sgn * a, sgn * b, m_, e_)
            if np.all(np.abs(pts) < 2.0 ** 17):
                e.update({'points': pts, 'c': c, 'gaps': gaps, 'm': m_, 'e': e_, 'shifted': False, 'layout': 'C',
                          'cls': e['cls'] + ':extremely-unbalanced', 'skip': ['elbow:lmethod']})
                yield e
        # long elbows (more than 1000 split candidates) with the corner anywhere: searches that look at a grid of candidates
        for _ in range(2):
            tot = int(rng.integers(1010, 1400))
            la = int(rng.integers(200, tot - 200))
            if _ == 0:
                # the corner next to or on a block boundary (2^k - 1, 2^k, 2^k + 1): blocked / strided evaluation meets its
                # own seams there
                la = int(pick(rng, [255, 256, 257, 511, 512, 513]))
            j1, j2 = slopes_of(rng, SHAPES[int(rng.integers(0, len(SHAPES)))])
            e = elbow(rng, la, tot - la, j1, j2)
            if np.all(np.abs(e['points']) < 2.0 ** 17):
                e['layout'] = 'C'
                yield e
        for _ in range(3):
            a = int(rng.integers(48, 64))
            j1, j2 = (a + 1, a) if rng.random() < 0.5 else (-a - 1, -a)
            short, long_ = int(rng.integers(3, 6)), int(rng.integers(200, 420))
            yield elbow(rng, short, long_, j1, j2) if rng.random() < 0.7 else elbow(rng, long_, short, j2, j1)
        return
    # thorough: every ordered pair of distinct slopes exactly once across the shards
    pairs = [(a, b) for a in range(-64, 65) for b in range(-64, 65) if a != b]
    for k in range(shard, len(pairs), nshards):
        j1, j2 = pairs[k]
        yield elbow(rng, arm(rng, tier), arm(rng, tier), j1, j2)
    # one very long, steep elbow with a faint corner per shard (thousands of segments per arm, slopes one step of 1/8 apart):
    # only the single-pass L-method, whose residuals have to stay exactly zero at the corner
    la, lb = int(rng.integers(3000, 3600)), int(rng.integers(3000, 3600))
    sg = 1 if rng.random() < 0.5 else -1
    e = elbow(rng, la, lb, sg * 64, sg * 63)
    gaps = np.full(la + lb, 4, dtype=np.int64)
    gaps[la - 1] = gaps[la] = 1
    m_, e_ = int(rng.integers(-500, 501)), int(rng.integers(0, 4))
    pts, c = build(e['x0'], gaps, la, sg * 64, sg * 63, m_, e_)
    # a performance curve: shifted by a whole number so that y >= 0 (ordinates up to ~2e5: this class alone goes beyond the
    # |value| < 2^17, |m| <= 4096 window of the other generators - the statement puts no bound on the offsets)
    m_ = m_ + int(np.ceil(max(0.0, -float(pts[:, 1].min())))) * 2 ** e_
    pts, c = build(e['x0'], gaps, la, sg * 64, sg * 63, m_, e_)
    if np.all(np.abs(pts) < 2.0 ** 18):
        e.update({'points': pts, 'c': c, 'gaps': gaps, 'm': m_, 'e': e_, 'shifted': True, 'layout': 'C',
                  'cls': e['cls'] + ':very-long-faint',
                  'skip': ['elbow:curvature', 'elbow:dfdt', 'elbow:menger', 'elbow:lmethod.knee', 'elbow:kneedle']})
        yield e
    for i in range(META['long_per_shard']):
        j1, j2 = slopes_of(rng, SHAPES[(shard + i) % len(SHAPES)])
        long_ = int(rng.integers(150, 2001))
        short = int(rng.integers(3, 13))
        la, lb = [(long_, short), (short, long_), (long_, int(rng.integers(150, 2001)))][(shard + i) % 3]
        yield elbow(rng, la, lb, j1, j2)


def setup(ctx, mods):
    return {'loops': loops.standard(ctx, mods)}


def configurations(mods, pts, monotone):
    """(classifier key, written-out configuration, thunk) for every detector configuration."""
    lm = mods['lmethod']
    x, y = pts[:, 0], pts[:, 1]
    out = [('elbow:curvature', 'curvature.knee(points)', lambda: mods['curvature'].knee(pts)),
           ('elbow:dfdt', 'dfdt.knee(points)', lambda: mods['dfdt'].knee(pts)),
           ('elbow:menger', 'menger.knee(points)', lambda: mods['menger'].knee(pts))]
    for f in FITS:
        for c in LCOSTS:
            out.append(('elbow:lmethod.get_knee', f'lmethod.get_knee(x, y, Fit.{f}, Cost.{c})[0]',
                        lambda f=f, c=c: lm.get_knee(x, y, lm.Fit(f), lm.Cost(c))[0]))
    for f in FITS:
        for r in REFINEMENTS:
            for lim in LIMITS:
                out.append((f'elbow:lmethod.knee:{r}', f'lmethod.knee(points, Fit.{f}, Refinement.{r}, limit={lim})',
                            lambda f=f, r=r, lim=lim: lm.knee(pts, lm.Fit(f), lm.Refinement(r), lim)))
    if monotone:
        out.append(('elbow:kneedle', 'kneedle.knee(points, t=0)', lambda: mods['kneedle'].knee(pts, 0)))
    return out


def run_case(ctx, mods, case):
    c, la, lb, j1, j2 = int(case['c']), int(case['la']), int(case['lb']), int(case['j1']), int(case['j2'])
    ref, cref = build(case['x0'], case['gaps'], la, j1, j2, case['m'], case['e'])
    values = np.asarray(case['points'], dtype=float)
    n = len(values)
    # the stored points must be exactly the elbow described by the parameters (generator self-check)
    if not (cref == c and ref.shape == values.shape and np.array_equal(ref, values) and n == la + lb + 1
            and la >= 3 and lb >= 3 and j1 != j2 and abs(j1) <= 64 and abs(j2) <= 64
            and abs(case['m']) <= (4096 if 'very-long-faint' not in str(case.get('cls')) else 2 ** 22) and 0 <= case['e'] <= 3
            and np.all(values * 8.0 == np.round(values * 8.0))
            and np.all(np.abs(values) < (2.0 ** 17 if 'very-long-faint' not in str(case.get('cls')) else 2.0 ** 18))):
        raise AssertionError('generator produced a curve outside the stated elbow family')
    pts = gen.present(values, case['layout'])
    cls = case['cls']
    monotone = j1 * j2 >= 0

    ctx.h('orientation_class', cls)
    ctx.h('layout', case['layout'])
    for nm, l in (('la', la), ('lb', lb)):
        ctx.h(f'arm_length:{nm}', l if l <= 4 else ('5-12' if l <= 12 else ('13-64' if l <= 64 else '150-2000')))
    ctx.h('slope_gap|j2-j1|', abs(j2 - j1) if abs(j2 - j1) <= 2 else ('3-16' if abs(j2 - j1) <= 16 else '17-128'))
    ctx.h('y_sign', 'y>=0' if values[:, 1].min() >= 0 else 'y<0 somewhere')

    observed = {}
    for key, name, thunk in configurations(mods, pts, monotone):
        if case.get('skip') and any(key.startswith(p) for p in case['skip']):
            continue
        ok, res = install.guarded(ctx, f'complete:{key[6:]}', thunk)
        if not ok:
            observed[name] = 'raised / loop bound'
            continue
        try:
            hit = res is not None and int(res) == c and float(res) == float(c)
        except Exception:
            hit = False
        observed[name] = res
        ctx.check(hit, key, key,
                  f'{name} returned {res!r}, the corner is {c} [{cls}; la={la} lb={lb} slopes {j1}/8 -> {j2}/8; '
                  f'layout {case["layout"]}]',
                  detector=name, result=res, corner=c, cls=cls, la=la, lb=lb, j1=j1, j2=j2, layout=case['layout'])
        ctx.h('detector_family', key)
    ctx.nontriv(cls, la, lb, j1, j2)
    if n <= 12:
        ctx.sample({'class': cls, 'la': la, 'lb': lb, 'slopes_eighths': [j1, j2], 'corner': c,
                    'points': values, 'layout': case['layout'], 'observed': observed}, cap=4)
