"""C07 - reduced-space indices map back exactly (DESIGN.md section 4, C07).

Postcondition monitors on ``rdp.mapping`` and ``rdp.compute_removed_points``.

* mapping: whenever the call satisfies the hypotheses of the statement
  (``indexes`` an ascending list of positions of ``reduced``; ``reduced`` a
  strictly increasing integer index vector starting at 0; ``removed`` a table
  whose dropped-point counts of all rows that start before a retained point add
  up to the number of points dropped before it - i.e. the table of *this*
  reduction - in ascending left-index order when ``sorted=True``, in any row
  order when ``sorted=False``) the result must equal ``reduced[indexes]``.
  Anything else is out-of-domain, never a violation.
* compute_removed_points: for a strictly increasing index set containing both
  end points the returned table must be one on which the documented running
  sum reproduces ``reduced`` (that is what "mapping(I, reduced, table) ==
  reduced[I] for every I" demands of the table, and nothing more).
* run_case: the table each simplifier returned must equal (numerically)
  ``compute_removed_points(points, reduced)``; a malformed pair returned by a
  simplifier is still held to ``mapping(all positions) == reduced``.
"""
import itertools

import numpy as np

from .. import gen, install, loops
from ..common import COSTS, DISTANCES, ORDERS, cost, distance, order, pick, shard_count
from ..ctx import HarnessError, LoopBoundExceeded

ENUM_N = {'quick': 8, 'thorough': 9}
ENUM_TOTAL_LE8 = 4 * (3 ** 7 - 1) // 2      # sum_{n=2..8} 4*3^(n-2) = 4372

META = {
    'rule': ('(a) EXHAUSTIVE finite scope: every curve length n in 2..8 (quick) / 2..9 (thorough), every subset S '
             'of {0..n-1} containing 0 and n-1 as `reduced`, removed = compute_removed_points(points, S), every '
             'strictly ascending position list I (all 2^|S| subsets of positions, the empty one included): '
             '4*3^(n-2) (n, S, I) triples per n = 4372 for n<=8, 13120 for n<=9; each with sorted=True, and with '
             'sorted=False under EVERY row permutation of the table when it has <= 4 rows (beyond 4 rows only 6 '
             'sampled permutations - reverse + 5 random - which are outside the exhaustive claim); '
             '(b) random structures 10 <= n <= 2000 with random retained density, position lists with repeats '
             '(all positions / [l,r,l,r..] pairs as add_points_even passes them / random multisets), int and float '
             'count columns, list and ndarray arguments, one random row permutation for sorted=False; '
             '(c) the (reduced, removed) pairs returned by rdp, grdp, rdp_fixed, mp_grdp, min_point_rdp on gen.curve '
             'curves (12 families x 4 layouts x random configuration): mapping on them and '
             'compute_removed_points(points, reduced) == returned table (numerically); a malformed pair returned by '
             'a simplifier (e.g. a duplicated index) is out-of-domain for the two monitors but is still checked '
             'directly: mapping(all positions) == reduced (key simplifier-pair:rdp.<name>). '
             'distinct = digest(reduced, I, sorted flag, row order); non-trivial = at least one removed point lies '
             'before a queried position (reduced[I[-1]] > I[-1])'),
    # about 1/3 of a normal quick run (mapping 61.6k, removed-table 13.1k, simplifier-table 3.5k, non-trivial 46.9k);
    # the n<=8 scope must have been enumerated completely in both tiers (exact count, not scaled)
    'require': {'mapping': 20000, 'removed-table': 4300, 'simplifier-table': 1100, 'nontrivial': 15000,
                'hist:enum_scope_n_le_8': ENUM_TOTAL_LE8},
    'noscale': ('hist:enum_scope_n_le_8',),
    'scale': {'quick': 1, 'thorough': 6},
    'exhaustive': {'quick': True, 'thorough': True},
    'random_cases': {'quick': 1600, 'thorough': 32000},
    'curve_cases': {'quick': 2000, 'thorough': 14000},
    'assumptions': ['"ascending" position lists are non-decreasing (repeats allowed, as add_points_even passes '
                    '[l,r,l,r,...]); the exhaustive scope enumerates the strictly ascending ones',
                    'a removed table is "the table of the reduction" iff, for every retained point, the counts of '
                    'the rows whose left index is smaller than it add up to the number of points dropped before it; '
                    'tables that do not satisfy this are out-of-domain for mapping',
                    'exhaustive = complete over (n, S, I) and over row permutations of tables with <= 4 rows; row '
                    'permutations of larger tables are sampled',
                    'a simplifier that raises or exceeds a loop bound is out of scope here (C01)'],
}

SIMPLIFIERS = ['rdp', 'grdp', 'rdp_fixed', 'mp_grdp', 'min_point_rdp']

STATE = {'source': 'internal'}


# ------------------------------------------------------------------ hypotheses

def index_vector(a):
    """A 1-D integer vector (int64), or None."""
    try:
        v = np.asarray(a)
    except Exception:
        return None
    if v.ndim != 1:
        return None
    if v.size == 0:
        return np.zeros(0, dtype=np.int64)
    if not np.issubdtype(v.dtype, np.integer):
        return None
    return v.astype(np.int64)


def reduced_reason(red):
    """None when red is a strictly increasing index vector that starts at 0 and has >= 2 entries."""
    if red is None:
        return 'reduced-not-an-integer-vector'
    if len(red) < 2:
        return 'reduced-shorter-than-2'
    if red[0] != 0:
        return 'reduced-does-not-start-at-0'
    if not np.all(np.diff(red) > 0):
        return 'reduced-not-strictly-increasing'
    return None


def table_reason(red, removed, need_sorted):
    """None when `removed` is the table of the reduction `red` (see module docstring)."""
    try:
        t = np.asarray(removed, dtype=float)
    except Exception:
        return 'removed-not-numeric'
    if t.ndim != 2 or t.shape[1] != 2:
        return 'removed-not-a-rows-x-2-table'
    if not np.all(np.isfinite(t)):
        return 'removed-not-finite'
    left, cnt = t[:, 0], t[:, 1]
    if need_sorted and np.any(np.diff(left) < 0):
        return 'removed-rows-not-in-left-index-order'
    o = np.argsort(left, kind='stable')
    ls = left[o]
    cum = np.concatenate(([0.0], np.cumsum(cnt[o])))
    before = cum[np.searchsorted(ls, red.astype(float), side='left')]
    if not np.array_equal(np.arange(len(red), dtype=float) + before, red.astype(float)):
        return 'removed-is-not-the-table-of-reduced'
    return None


def small(a, cap=64):
    a = np.asarray(a)
    return a if a.size <= cap else {'head': a[:cap // 2], 'size': int(a.size)}


# -------------------------------------------------------------------- monitors

def _mapping_pre(args, kwargs):
    """Copy of the removed table as it was handed in (the oracle must not be fooled by a callee that edits it)."""
    a = dict(zip(('indexes', 'reduced', 'removed', 'sorted'), args))
    a.update(kwargs)
    try:
        return np.array(a['removed'], copy=True)
    except Exception:
        return None


def mapping_post(ctx, original, args, kwargs, result, removed_before=None):
    names = ('indexes', 'reduced', 'removed', 'sorted')
    a = dict(zip(names, args))
    a.update(kwargs)
    if not all(k in a for k in names[:3]):
        ctx.ood('mapping', 'unexpected-call-shape')
        return
    if removed_before is not None:
        try:
            same = np.array_equal(np.asarray(a['removed']), removed_before)
        except Exception:
            same = True
        if not same:
            # the table of the reduction was rewritten by the call: every later mapping on this reduction is off
            ctx.violation('mapping', 'mapping:removed-table-modified',
                          'rdp.mapping modified the removed table it was given (later calls on the same reduction map to wrong indices)',
                          before=small(removed_before, 128), after=small(a['removed'], 128))
        a['removed'] = removed_before
    is_sorted = bool(a.get('sorted', True))
    idx = index_vector(a['indexes'])
    red = index_vector(a['reduced'])
    why = reduced_reason(red)
    if why:
        ctx.ood('mapping', why)
        return
    if idx is None:
        ctx.ood('mapping', 'indexes-not-an-integer-vector')
        return
    if idx.size and (idx.min() < 0 or idx.max() >= len(red)):
        ctx.ood('mapping', 'indexes-outside-the-reduced-curve')
        return
    if idx.size and np.any(np.diff(idx) < 0):
        ctx.ood('mapping', 'indexes-not-ascending')
        return
    why = table_reason(red, a['removed'], is_sorted)
    if why:
        ctx.ood('mapping', why)
        return

    expected = red[idx]
    try:
        got = np.asarray(result)
        good = got.shape == expected.shape and bool(np.all(got == expected))
    except Exception:
        got, good = result, False
    src = STATE['source']
    ctx.h('mapping_by_source', f"{src}/{'sorted' if is_sorted else 'unsorted'}")
    rows = len(np.asarray(a['removed']))
    ctx.h('removed_rows', rows if rows <= 8 else ('9-31' if rows < 32 else ('32-255' if rows < 256 else '256+')))
    ctx.h('queried_positions', int(idx.size) if idx.size <= 9 else ('10-99' if idx.size < 100 else '100+'))
    if idx.size and expected[-1] > idx[-1]:
        ctx.nontriv(red, idx, is_sorted, np.asarray(a['removed'], dtype=float)[:, 0])
    if good:
        ctx.ok('mapping')
        return
    bad = None
    try:
        if np.asarray(got).shape == expected.shape:
            bad = int(np.flatnonzero(np.asarray(got) != expected)[0])
    except Exception:
        pass
    ctx.violation('mapping', 'mapping:sorted' if is_sorted else 'mapping:unsorted',
                  f'mapping(I, reduced, removed, sorted={is_sorted}) != reduced[I]'
                  + (f': first mismatch at list position {bad}: I={int(idx[bad])} got {np.asarray(got)[bad]} '
                     f'expected {int(expected[bad])}' if bad is not None else f': got {got!r}'),
                  indexes=small(idx), reduced=small(red), removed=small(a['removed'], 128), sorted=is_sorted,
                  got=small(got) if isinstance(got, np.ndarray) else repr(got), expected=small(expected),
                  source=src)


def removed_post(ctx, original, args, kwargs, result):
    a = dict(zip(('points', 'reduced'), args))
    a.update(kwargs)
    if 'points' not in a or 'reduced' not in a:
        ctx.ood('removed-table', 'unexpected-call-shape')
        return
    red = index_vector(a['reduced'])
    why = reduced_reason(red)
    if why:
        ctx.ood('removed-table', why)
        return
    try:
        n = len(a['points'])
    except Exception:
        ctx.ood('removed-table', 'points-without-length')
        return
    if red[-1] != n - 1:
        ctx.ood('removed-table', 'reduced-does-not-end-at-the-last-point')
        return
    why = table_reason(red, result, True)
    ctx.h('removed_table_by_source', STATE['source'])
    if why is None:
        ctx.ok('removed-table')
    else:
        ctx.violation('removed-table', 'removed-table:compute_removed_points',
                      f'compute_removed_points(points, reduced) is not the table of reduced ({why}): the dropped-'
                      f'point counts of the rows starting before a retained point do not add up to reduced[i] - i',
                      n=n, reduced=small(red), table=small(result, 128), source=STATE['source'])


def setup(ctx, mods):
    mapping_post.pre = _mapping_pre
    install.monitor(ctx, 'rdp', 'mapping', mapping_post)
    install.monitor(ctx, 'rdp', 'compute_removed_points', removed_post)
    return {'loops': loops.standard(ctx, mods)}


# ----------------------------------------------------------------------- cases

def enumerate_scope(nmax):
    """(index, n, S, I) for every n<=nmax, subset S with both ends, strictly ascending position list I."""
    i = 0
    for n in range(2, nmax + 1):
        for r in range(0, n - 1):
            for mid in itertools.combinations(range(1, n - 1), r):
                s = (0,) + mid + (n - 1,)
                k = len(s)
                for mask in range(1 << k):
                    yield i, n, s, [p for p in range(k) if (mask >> p) & 1]
                    i += 1


def position_list(rng, k, mode):
    if mode == 'all':
        return np.arange(k)
    if mode == 'pairs':          # what add_points_even passes: [l, r, l, r, ...]
        segs = np.flatnonzero(rng.random(k - 1) < rng.uniform(0.1, 1.0))
        return np.column_stack((segs, segs + 1)).ravel()
    if mode == 'subset':
        return np.flatnonzero(rng.random(k) < rng.uniform(0.05, 1.0))
    m = int(rng.integers(0, 2 * k + 1))     # multiset with repeats
    return np.sort(rng.integers(0, k, m))


MODES = ['all', 'pairs', 'subset', 'repeats']


def cases(rng, tier, shard, nshards):
    # (a) the exhaustive small scope, sharded by case index
    for i, n, s, pos in enumerate_scope(ENUM_N[tier]):
        if i % nshards != shard:
            continue
        rows = len(s) - 1
        if rows <= 4:
            perms = 'all'
        else:
            perms = [list(range(rows))[::-1]] + [rng.permutation(rows).tolist() for _ in range(5)]
        yield {'kind': 'enum', 'n': n, 'reduced': list(s), 'indexes': pos, 'perms': perms}

    # (b) random larger structures
    for _ in range(shard_count(META['random_cases'][tier], shard, nshards)):
        n = int(rng.integers(10, 2001)) if rng.random() < 0.5 else int(rng.integers(10, 120))
        p = float(rng.uniform(0.0, 1.0)) ** 2
        keep = rng.random(n) < p
        keep[0] = keep[-1] = True
        red = np.flatnonzero(keep)
        k = len(red)
        mode = pick(rng, MODES)
        hostile = 'descending' if rng.random() < 0.02 else ''
        yield {'kind': 'random', 'n': n, 'reduced': red.astype(int),
               'indexes': position_list(rng, k, mode).astype(int), 'mode': mode,
               'perm': rng.permutation(k - 1).astype(int),
               'float_counts': bool(rng.random() < 0.4), 'as_list': bool(rng.random() < 0.3),
               'hostile': hostile}

    # (c) reductions produced by the simplifiers
    for _ in range(shard_count(META['curve_cases'][tier], shard, nshards)):
        r = rng.random()
        if tier == 'thorough' and r < 0.01:
            pts, meta = gen.curve(rng, nmax=3000, nmin=400)
        elif tier == 'thorough' and r < 0.10:
            pts, meta = gen.curve(rng, nmax=400, nmin=80)
        else:
            pts, meta = gen.curve(rng, nmax=80)
        if rng.random() < 0.004:
            # a knee followed by a long, exactly straight tail (hundreds to thousands of points in ONE retained segment)
            m = int(rng.integers(600, 2500))
            head = int(rng.integers(8, 40))
            x = np.arange(head + m, dtype=float)
            y = np.concatenate((200.0 / (1.0 + np.arange(head)), np.full(m, 0.0)))
            y[head:] = y[head - 1] - 0.001 * np.arange(1, m + 1)
            y = y - y.min() + 1.0
            pts, meta = np.ascontiguousarray(np.column_stack((x, y))), {'family': 'knee+long-straight-tail'}
        n = len(pts)
        cfg = {}
        for s in SIMPLIFIERS:
            cs = pick(rng, COSTS)
            cfg[s] = {'t': gen.threshold(rng, cs), 'distance': pick(rng, DISTANCES), 'cost': cs,
                      'order': pick(rng, ORDERS), 'length': int(rng.integers(0, n + 3)),
                      'mode': pick(rng, MODES)}
        cfg['min_point_rdp']['tlist'] = [float(10.0 ** rng.uniform(-4, 0)) for _ in range(int(rng.integers(1, 4)))]
        yield {'kind': 'curve', 'points': pts, 'family': meta['family'], 'layout': gen.pick_layout(rng, pts),
               'cfg': cfg, 'iseed': int(rng.integers(0, 2 ** 31))}


# -------------------------------------------------------------------- run_case

def call_mapping(ctx, rdp, *args):
    return install.guarded(ctx, 'complete:rdp.mapping', rdp.mapping, *args)


def run_enum(ctx, rdp, case):
    n = int(case['n'])
    red = np.array(case['reduced'], dtype=int)
    idx = np.array(case['indexes'], dtype=int)
    pts = np.column_stack((np.arange(n, dtype=float), np.zeros(n)))
    ok, removed = install.guarded(ctx, 'complete:rdp.compute_removed_points', rdp.compute_removed_points, pts, red)
    if not ok:
        return
    removed = np.asarray(removed)
    if n <= 8:
        ctx.h('enum_scope_n_le_8', n)
    else:
        ctx.h('enum_scope_n_9', n)
    call_mapping(ctx, rdp, idx, red, removed)
    rows = len(red) - 1
    perms = case['perms']
    if isinstance(perms, str):
        perms = itertools.permutations(range(rows))
    for perm in perms:
        call_mapping(ctx, rdp, idx, red, removed[list(perm)], False)
    if rows >= 3 and len(idx) >= 2 and red[idx[-1]] > idx[-1] + 1:
        ctx.sample({'kind': 'enum', 'n': n, 'reduced': red, 'indexes': idx, 'removed': removed,
                    'mapped': install.orig('rdp', 'mapping')(idx, red, removed)}, cap=2)


def run_random(ctx, rdp, case):
    n = int(case['n'])
    red = np.asarray(case['reduced'], dtype=int)
    idx = np.asarray(case['indexes'], dtype=int)
    pts = np.zeros((n, 2))
    pts[:, 0] = np.arange(n)
    red_arg = red
    if (n + len(red)) % 3 == 0:
        # the index set as a strided view / a column of a 2-D table (same values, non-contiguous storage)
        big = np.full(2 * len(red) + 1, -1, dtype=red.dtype)
        big[1::2] = red
        red_arg = big[1::2]
        ctx.h('reduced_storage', 'strided-view')
    elif (n + len(red)) % 3 == 1:
        red_arg = np.column_stack((red, red[::-1]))[:, 0]
        ctx.h('reduced_storage', 'table-column')
    ok, removed = install.guarded(ctx, 'complete:rdp.compute_removed_points', rdp.compute_removed_points, pts, red_arg)
    if not ok:
        return
    removed = np.asarray(removed)
    if case['float_counts']:
        removed = removed.astype(float)
    ctx.h('random_n', '10-119' if n < 120 else ('120-999' if n < 1000 else '1000-2000'))
    ctx.h('random_mode', case['mode'])
    if case.get('hostile') == 'descending':
        if len(idx) >= 2 and idx[0] != idx[-1]:
            try:       # outside the hypotheses on purpose: the monitor must classify it out-of-domain
                rdp.mapping(idx[::-1], red, removed)
            except HarnessError:
                raise
            except Exception:
                pass
        return
    iarg = idx.tolist() if case['as_list'] else idx
    if not case['as_list'] and len(idx):
        # position arrays of any integer dtype (small unsigned/signed ones overflow if the running count is not promoted)
        dt = ['int64', 'int32', 'int16', 'uint8', 'uint16', 'int8'][(len(idx) + n) % 6]
        if int(idx.max()) <= np.iinfo(dt).max:
            iarg = idx.astype(dt)
            ctx.h('position_dtype', dt)
    call_mapping(ctx, rdp, iarg, red, removed)
    if len(removed) >= 2:
        # the same table in other storage: column-major (what np.vstack((starts, counts)).T gives) and a strided view
        ctx.h('removed_storage', 'fortran + strided view')
        call_mapping(ctx, rdp, iarg, red, np.asfortranarray(removed))
        wide = np.full((len(removed), 5), -7, dtype=removed.dtype)
        wide[:, 1::2][:, :2] = removed
        call_mapping(ctx, rdp, iarg, red, wide[:, 1::2][:, :2])
    perm = np.asarray(case['perm'], dtype=int)
    call_mapping(ctx, rdp, iarg, red, removed[perm], False)
    call_mapping(ctx, rdp, iarg, red, removed, False)     # any row order includes the sorted one
    if len(red) < 12 and len(idx) >= 3:
        ctx.sample({'kind': 'random', 'n': n, 'reduced': red, 'indexes': idx, 'row_order': perm,
                    'mapped_unsorted': install.orig('rdp', 'mapping')(idx, red, removed[perm], False)}, cap=3)


def returned_pair(ctx, s, g, n, reduced, removed, why):
    """A malformed pair a simplifier returned: the mapping monitor classifies it out-of-domain (it cannot know
    where the pair came from), but the statement quantifies over *every* pair a simplifier returns, so the
    identity is evaluated here directly, on all positions."""
    try:
        r = np.asarray(reduced)
        idx = np.arange(len(r))
        got = np.asarray(install.orig('rdp', 'mapping')(idx, reduced, removed))
        good = got.shape == r.shape and bool(np.all(got == r))
    except Exception as e:
        got, good = repr(e), False
    ctx.check(good, 'simplifier-pair', f'simplifier-pair:rdp.{s}',
              f'rdp.{s} returned a malformed reduction ({why}) on which mapping(all positions) != reduced',
              simplifier=s, config=g, n=n, reduced=small(reduced), removed=small(removed, 128),
              mapped=small(got) if isinstance(got, np.ndarray) else got)


def run_curve(ctx, mods, case):
    rdp = mods['rdp']
    pts = gen.present(case['points'], case['layout'])
    n = len(pts)
    fam = case['family']
    prng = np.random.default_rng(int(case['iseed']))
    for s in SIMPLIFIERS:
        g = case['cfg'][s]
        d, c, o = distance(mods, g['distance']), cost(mods, g['cost']), order(mods, g['order'])
        STATE['source'] = f'inside:{s}'
        try:
            if s == 'rdp':
                res = rdp.rdp(pts, g['t'], d, c)
            elif s == 'grdp':
                res = rdp.grdp(pts, g['t'], d, c, o)
            elif s == 'rdp_fixed':
                res = rdp.rdp_fixed(pts, g['length'], d, o)
            elif s == 'mp_grdp':
                res = rdp.mp_grdp(pts, g['t'], g['length'], d, c, o)
            else:
                res = rdp.min_point_rdp(pts, list(g['tlist']), g['length'])
        except HarnessError:
            raise
        except LoopBoundExceeded:
            ctx.ood('simplifier-table', f'loop-bound:{s}')       # C01's business
            continue
        except Exception as e:
            ctx.ood('simplifier-table', f'raised:{s}:{type(e).__name__}')
            continue
        finally:
            STATE['source'] = f'simplifier:{s}'
        try:
            reduced, removed = res
            red = index_vector(reduced)
        except Exception:
            ctx.ood('simplifier-table', f'not-a-pair:{s}')
            continue
        why = reduced_reason(red)
        if why is None and red[-1] != n - 1:
            why = 'reduced-does-not-end-at-the-last-point'
        if why:
            ctx.ood('simplifier-table', f'{why}:{s}')            # malformed reduction: C01's business ...
            returned_pair(ctx, s, g, n, reduced, removed, why)   # ... but the statement covers every returned pair
            continue
        k = len(red)
        ctx.h('simplifier_x_family', f'{s}/{fam}')
        ctx.h('layout', case['layout'])
        ctx.h('retained_points', k if k < 6 else ('6-15' if k < 16 else ('16-99' if k < 100 else '100+')))

        # compute_removed_points reproduces the table the simplifier returned
        ok, mine = install.guarded(ctx, 'complete:rdp.compute_removed_points', rdp.compute_removed_points,
                                   pts, reduced)
        if ok:
            try:
                a, b = np.asarray(mine, dtype=float), np.asarray(removed, dtype=float)
                same = a.shape == b.shape and bool(np.array_equal(a, b))
            except Exception:
                same = False
            ctx.check(same, 'simplifier-table', f'removed-table:rdp.{s}',
                      f'compute_removed_points(points, reduced) differs from the removed table returned by rdp.{s}',
                      simplifier=s, config=g, n=n, reduced=small(red), returned=small(removed, 128),
                      recomputed=small(mine, 128))

        # mapping on the pair the simplifier returned
        idx = position_list(prng, k, g['mode']).astype(int)
        dt = ['int64', 'uint8', 'int16', 'int32'][(k + n) % 4]
        if len(idx) and int(idx.max()) <= np.iinfo(dt).max:
            idx = idx.astype(dt)
        call_mapping(ctx, rdp, idx, reduced, removed)
        rows = len(np.asarray(removed))
        perm = prng.permutation(rows)
        try:
            shuffled = np.asarray(removed)[perm]
        except Exception:
            continue
        call_mapping(ctx, rdp, idx, reduced, shuffled, False)
        if k >= 4 and len(idx) >= 2:
            ctx.sample({'kind': 'simplifier', 'simplifier': s, 'family': fam, 'n': n, 'reduced': red[:20],
                        'removed': np.asarray(removed)[:20], 'indexes': idx[:20],
                        'mapped': install.orig('rdp', 'mapping')(idx, reduced, removed)[:20]}, cap=4)
    STATE['source'] = 'internal'


def run_case(ctx, mods, case):
    kind = case['kind']
    STATE['source'] = kind
    try:
        if kind == 'enum':
            run_enum(ctx, mods['rdp'], case)
        elif kind == 'random':
            run_random(ctx, mods['rdp'], case)
        else:
            run_curve(ctx, mods, case)
    finally:
        STATE['source'] = 'internal'
