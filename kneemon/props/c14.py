"""C14 - even-point insertion (DESIGN.md section 4, C14).

Postcondition monitors on ``postprocessing.add_points_even`` and
``postprocessing.add_points_even_knees`` against the executable documented
model:

    expected = running-minimum filter (first element kept, then every element
               whose height is <= the lowest kept so far) of the sorted,
               duplicate-free union of
                 * the knees mapped to original indices (reduced[knees]; the
                   markers variant receives original indices),
                 * {a + j*int((b-a)/m) : j = 1..m}, m = ceil(w/(2*tx)), for
                   every retained segment / knee gap (a, b) whose normalised
                   width w = |x_b - x_a|/dx exceeds 2*tx and whose normalised
                   height |y_b - y_a|/dy exceeds ty,
                 * {0, n-1} when extremes is requested.

Same-primitive rule (DESIGN section 3): w, the height and the thresholds are
computed with the *identical* float expressions on the *same* array the
library received, so `w > 2*tx`, `height > ty` and `ceil(w/(2*tx))` are
bit-identical decisions; comparisons of heights in the filter are exact
comparisons of the very same floats.  Calls outside the hypotheses (constant x
or y, malformed reduction, empty marker set, non-positive thresholds ...) are
out-of-domain, never a violation.
"""
import math

import numpy as np

from .. import gen, install
from ..common import COSTS, DISTANCES, ORDERS, cost, distance, order, pick, shard_count
from ..ctx import HarnessError, LoopBoundExceeded

EVEN = 'even:add_points_even'
KNEES = 'even:add_points_even_knees'

META = {
    'refill': True,      # cases presented in a reused buffer are followed by a refill of that buffer (runner)
    'rule': ('curves: gen.curve families (non-flat ones; flat x or y is out-of-domain) in C/F/strided-view/int64 '
             'layouts, n <= 80 (quick) and up to 3000 (thorough), plus power-of-two integer grids on which '
             'w == 2*tx and height == ty occur exactly; reductions from rdp.rdp_fixed (length 2..40, random '
             'Distance x Order) or rdp.rdp (random t x Distance x Metrics); knees = random ascending subsets of the '
             'positions of the reduced curve (empty included) for add_points_even, and the same knees mapped to '
             'original indices or random original indices (>= 1) for add_points_even_knees; (tx, ty) = '
             '10^U(-2.5,-0.3) or dyadic 2^-k; both functions x extremes in {False, True} x 2 threshold pairs per '
             'curve. distinct = digest(function, points, reduction / knees, tx, ty, extremes); non-trivial = the '
             'documented rule inserts at least one point with a non-zero index increment (m <= b-a), i.e. an index '
             'that is not just the left end of its segment'),
    # about 1/3 of a normal quick run on the repaired tree (6.4k model comparisons per function, 12.9k range checks,
    # ~5.2k distinct non-trivial); with D9 present the markers variant still gets its extremes=False half (3.2k)
    'require': {EVEN: 2000, KNEES: 2000, 'range': 4000, 'nontrivial': 1700},
    'scale': {'quick': 1, 'thorough': 80},
    'curve_cases': {'quick': 5000, 'thorough': 150000},
    'assumptions': ['mapped knees are reduced[knees] (exact index mapping is C07)',
                    'the running-minimum filter keeps ties (height <= lowest kept so far), as filter_worst_knees '
                    'documents for C13',
                    'knee sets are strictly ascending index vectors; the markers variant needs >= 1 knee',
                    'widths/heights are replicated with the identical float expressions on the same array, so the '
                    'threshold decisions are exact (no tolerance anywhere in this property)'],
}


# ------------------------------------------------------------------ hypotheses

def index_vector(a):
    try:
        v = np.asarray(a)
    except Exception:
        return None
    if v.ndim != 1:
        return None
    if v.size == 0:
        return np.zeros(0, dtype=np.int64)
    if not np.issubdtype(v.dtype, np.integer):
        return None
    return v.astype(np.int64)


def curve_reason(points):
    if not isinstance(points, np.ndarray) or points.ndim != 2 or points.shape[1] != 2:
        return 'points-not-an-(n,2)-array'
    if len(points) < 2:
        return 'fewer-than-2-points'
    if not (np.issubdtype(points.dtype, np.floating) or np.issubdtype(points.dtype, np.integer)):
        return 'points-not-numeric'
    if not np.all(np.isfinite(points)):
        return 'points-not-finite'
    return None


def threshold_reason(tx, ty):
    for v in (tx, ty):
        if isinstance(v, bool) or not isinstance(v, (int, float, np.integer, np.floating)):
            return 'threshold-not-a-number'
        if not (math.isfinite(v) and v > 0):
            return 'threshold-not-positive'
    return None


def reduction_reason(red, removed, n):
    """None when (red, removed) is a well-formed reduction of a curve with n points, table in left-index order."""
    if red is None:
        return 'reduced-not-an-integer-vector'
    if len(red) < 2 or red[0] != 0 or red[-1] != n - 1:
        return 'reduced-does-not-contain-both-end-points'
    if not np.all(np.diff(red) > 0):
        return 'reduced-not-strictly-increasing'
    try:
        t = np.asarray(removed, dtype=float)
    except Exception:
        return 'removed-not-numeric'
    if t.ndim != 2 or t.shape[1] != 2 or not np.all(np.isfinite(t)):
        return 'removed-not-a-finite-rows-x-2-table'
    if np.any(np.diff(t[:, 0]) < 0):
        return 'removed-rows-not-in-left-index-order'
    cum = np.concatenate(([0.0], np.cumsum(t[:, 1])))
    before = cum[np.searchsorted(t[:, 0], red.astype(float), side='left')]
    if not np.array_equal(np.arange(len(red), dtype=float) + before, red.astype(float)):
        return 'removed-is-not-the-table-of-reduced'
    return None


def knees_reason(kn, upper, need_one):
    if kn is None:
        return 'knees-not-an-integer-vector'
    if need_one and len(kn) == 0:
        return 'empty-marker-set'
    if len(kn) and (kn.min() < 0 or kn.max() >= upper):
        return 'knees-out-of-range'
    if np.any(np.diff(kn) <= 0):
        return 'knees-not-strictly-ascending'
    return None


# ------------------------------------------------------------------- the model

def model(points, gaps, base, tx, ty, extremes):
    """The documented set. `gaps` = consecutive (a, b) original-index pairs to examine; `base` = mapped knees.

    Every float expression below is the library's own, on the same array.
    """
    n = len(points)
    max_x, max_y = points.max(axis=0)
    min_x, min_y = points.min(axis=0)
    dx = math.fabs(max_x - min_x)
    dy = math.fabs(max_y - min_y)
    inserted, used, ties = [], [], 0
    for a, b in gaps:
        pdx = math.fabs(points[b][0] - points[a][0]) / dx
        pdy = math.fabs(points[b][1] - points[a][1]) / dy
        if pdx == (2.0 * tx) or pdy == ty:
            ties += 1
        if pdx > (2.0 * tx) and pdy > ty:
            m = int(math.ceil(pdx / (2.0 * tx)))
            inc = int((b - a) / m)
            used.append((a, b, m, inc))
            inserted.extend(a + j * inc for j in range(1, m + 1))
    union = set(int(k) for k in base) | set(inserted)
    if extremes:
        union |= {0, n - 1}
    union = sorted(union)
    if len(union) <= 1:
        kept = union
    else:
        kept = [union[0]]
        h_min = points[union[0]][1]
        for k in union[1:]:
            h = points[k][1]
            if h <= h_min:
                kept.append(k)
                h_min = h
    return {'expected': kept, 'union': union, 'inserted': inserted, 'segments': used, 'ties': ties}


def flat_reason(points):
    max_x, max_y = points.max(axis=0)
    min_x, min_y = points.min(axis=0)
    if math.fabs(max_x - min_x) == 0:
        return 'constant-x'
    if math.fabs(max_y - min_y) == 0:
        return 'constant-y'
    return None


def bucket(v):
    return v if v <= 3 else ('4-9' if v < 10 else ('10-49' if v < 50 else '50+'))


def judge(ctx, mon, fname, points, mdl, result, distinct, witness):
    n = len(points)
    exp = mdl['expected']
    try:
        got = np.asarray(result)
        flat = got.ndim == 1
        vals = [int(v) for v in got.tolist()] if flat else None
        integral = flat and (got.size == 0 or np.issubdtype(got.dtype, np.integer)
                             or bool(np.all(got == np.round(got))))
    except Exception:
        got, flat, vals, integral = result, False, None, False
    ctx.h('function_x_extremes', f"{fname}/extremes={witness['extremes']}")
    ctx.h('inserted_points', bucket(len(mdl['inserted'])))
    ctx.h('qualifying_segments', bucket(len(mdl['segments'])))
    ctx.h('result_size', bucket(len(exp)))
    ctx.h('n', '2-5' if n <= 5 else ('6-20' if n <= 20 else ('21-80' if n <= 80 else ('81-400' if n <= 400 else '401+'))))
    ctx.h('dropped_by_running_minimum', bucket(len(mdl['union']) - len(exp)))
    if mdl['ties']:
        ctx.h('exact_threshold_ties', fname)
    if any(s[3] == 0 for s in mdl['segments']):
        ctx.h('zero_increment_segments', fname)
    real = sum(1 for s in mdl['segments'] if s[3] >= 1)     # segments that contribute indices other than `a`
    ctx.h('segments_with_nonzero_increment', bucket(real))
    if real:
        ctx.nontriv(fname, points, *distinct)

    if flat and integral:
        inside = all(0 <= v < n for v in vals)
        ctx.check(inside, 'range', f'range:{fname}',
                  f'{fname} returned an index outside [0, {n}): {[v for v in vals if not 0 <= v < n][:10]}',
                  got=vals, **witness)
    good = bool(flat and integral and vals == exp)
    if good:
        ctx.ok(mon)
        if real and len(mdl['union']) > len(exp) and len(exp) >= 3:
            ctx.sample(dict(witness, function=fname, n=n, points_head=np.asarray(points)[:8],
                            segments_a_b_m_inc=mdl['segments'][:8], inserted=mdl['inserted'][:30],
                            returned=vals[:40]))
        return
    missing = sorted(set(exp) - set(vals or []))
    extra = sorted(set(vals or []) - set(exp))
    ctx.violation(mon, mon,
                  f'{fname} != documented set: missing {missing[:10]} extra {extra[:10]} '
                  f'(got {(vals if vals is not None else repr(got))!s:.200} expected {exp!s:.200})',
                  got=vals if vals is not None else repr(got), expected=exp, union_before_filter=mdl['union'],
                  segments_a_b_m_inc=mdl['segments'], inserted=mdl['inserted'], **witness)


# -------------------------------------------------------------------- monitors

def even_post(ctx, original, args, kwargs, result):
    names = ('points', 'reduced', 'knees', 'removed', 'tx', 'ty', 'extremes')
    a = {'tx': 0.05, 'ty': 0.05, 'extremes': False}
    a.update(zip(names, args))
    a.update(kwargs)
    if not all(k in a for k in names):
        ctx.ood(EVEN, 'unexpected-call-shape')
        return
    points, tx, ty = a['points'], a['tx'], a['ty']
    why = curve_reason(points) or threshold_reason(tx, ty) or flat_reason(points)
    if why is None and not isinstance(a['extremes'], (bool, np.bool_)):
        why = 'extremes-not-a-bool'
    if why is None:
        red = index_vector(a['reduced'])
        why = reduction_reason(red, a['removed'], len(points))
    if why is None:
        kn = index_vector(a['knees'])
        why = knees_reason(kn, len(red), False)
    if why:
        ctx.ood(EVEN, why)
        return
    gaps = [(int(red[i - 1]), int(red[i])) for i in range(1, len(red))]
    mdl = model(points, gaps, red[kn], tx, ty, bool(a['extremes']))
    ctx.h('retained_points', bucket(len(red)))
    ctx.h('knees', bucket(len(kn)))
    judge(ctx, EVEN, 'add_points_even', points, mdl, result,
          (red, kn, float(tx), float(ty), bool(a['extremes'])),
          {'reduced': red, 'knees': kn, 'removed': np.asarray(a['removed']), 'tx': float(tx), 'ty': float(ty),
           'extremes': bool(a['extremes'])})


def knees_post(ctx, original, args, kwargs, result):
    names = ('points', 'knees', 'tx', 'ty', 'extremes')
    a = {'tx': 0.05, 'ty': 0.05, 'extremes': False}
    a.update(zip(names, args))
    a.update(kwargs)
    if not all(k in a for k in names):
        ctx.ood(KNEES, 'unexpected-call-shape')
        return
    points, tx, ty = a['points'], a['tx'], a['ty']
    why = curve_reason(points) or threshold_reason(tx, ty) or flat_reason(points)
    if why is None and not isinstance(a['extremes'], (bool, np.bool_)):
        why = 'extremes-not-a-bool'
    if why is None:
        kn = index_vector(a['knees'])
        why = knees_reason(kn, len(points), True)
    if why:
        ctx.ood(KNEES, why)
        return
    marks = [0] + [int(k) for k in kn] + [len(points) - 1]
    gaps = list(zip(marks[:-1], marks[1:]))
    mdl = model(points, gaps, kn, tx, ty, bool(a['extremes']))
    ctx.h('markers', bucket(len(kn)))
    judge(ctx, KNEES, 'add_points_even_knees', points, mdl, result,
          (kn, float(tx), float(ty), bool(a['extremes'])),
          {'knees': kn, 'tx': float(tx), 'ty': float(ty), 'extremes': bool(a['extremes'])})


def setup(ctx, mods):
    install.monitor(ctx, 'postprocessing', 'add_points_even', even_post)
    install.monitor(ctx, 'postprocessing', 'add_points_even_knees', knees_post)
    return {}


# ----------------------------------------------------------------------- cases

FAMILIES = [f for f in gen.FAMILIES if f != 'const']


def grid_curve(rng):
    """Integer grid with power-of-two ranges: widths, heights and thresholds are exact dyadic numbers."""
    p = int(rng.integers(3, 7))
    n = 2 ** p + 1
    x = np.arange(n, dtype=float) + float(rng.integers(0, 3))
    q = int(rng.integers(2, 6))
    top = float(2 ** q)
    kind = int(rng.integers(0, 3))
    if kind == 0:        # decreasing staircase of integer levels
        y = np.sort(rng.integers(0, 2 ** q + 1, n))[::-1].astype(float)
    elif kind == 1:      # integer noise
        y = rng.integers(0, 2 ** q + 1, n).astype(float)
    else:                # convex integer decay
        y = np.floor(top * (1.0 - np.arange(n) / (n - 1.0)) ** 2)
    y[0], y[-1] = top, 0.0
    return np.ascontiguousarray(np.column_stack((x, y))), p


def cases(rng, tier, shard, nshards):
    for _ in range(shard_count(META['curve_cases'][tier], shard, nshards)):
        r = rng.random()
        grid = None
        dec = False
        if r < 0.15:
            pts, grid = grid_curve(rng)
            fam = 'grid'
        elif r < 0.27:
            # decimal grid: x = 0..N with N in {10, 20, 50, 100} and round decimal thresholds, so that w/(2*tx) lands
            # on (the float neighbourhood of) an integer - the exact arrangement of the float expression matters
            N = int(pick(rng, [10, 20, 50, 100]))
            x = np.arange(N + 1, dtype=float)
            y = np.sort(rng.integers(0, 41, N + 1))[::-1].astype(float) / (1.0 if rng.random() < 0.5 else 40.0)
            y[0], y[-1] = y.max() + 1.0, 0.0
            pts, fam, dec = np.ascontiguousarray(np.column_stack((x, y))), 'decimal-grid', True
        elif r < 0.29:
            pts, meta = gen.curve(rng, family='const', nmax=30)        # out-of-domain on purpose
            fam = meta['family']
        elif tier == 'thorough' and r < 0.30:
            pts, meta = gen.curve(rng, family=pick(rng, FAMILIES), nmax=3000, nmin=400)
            fam = meta['family']
        elif r < 0.42:
            pts, meta = gen.curve(rng, family=pick(rng, FAMILIES), nmax=400, nmin=80)
            fam = meta['family']
        else:
            pts, meta = gen.curve(rng, family=pick(rng, FAMILIES), nmax=80)
            fam = meta['family']
        if rng.random() < 0.03 and grid is None and not dec:
            # the same curve in base units (exact rescaling by a power of two): ranges far below machine epsilon
            pts = pts * np.array([float(2.0 ** -int(pick(rng, [0, 0, 60, 75]))), float(2.0 ** -int(pick(rng, [60, 70, 80])))])
            fam = str(fam) + '+tiny-scale'
        lay = None
        if rng.random() < 0.04:
            # integral coordinates of magnitude 1e9..1e10 as int64
            pts, fam, lay, grid, dec = gen.large_int_curve(rng, nmax=60), 'large-int64', 'i64', None, False
        n = len(pts)
        if rng.random() < 0.7:
            red = {'name': 'rdp_fixed', 'length': int(rng.integers(2, min(n, 40) + 1)),
                   'distance': pick(rng, DISTANCES), 'order': pick(rng, ORDERS)}
        else:
            cs = pick(rng, COSTS)
            red = {'name': 'rdp', 't': gen.threshold(rng, cs), 'distance': pick(rng, DISTANCES), 'cost': cs}
        thresholds = []
        for _ in range(2):
            if dec:
                thresholds.append([float(pick(rng, [0.05, 0.1, 0.025, 0.2, 0.15, 0.01])), float(pick(rng, [0.01, 0.05, 0.1, 0.025]))])
            elif grid is not None or rng.random() < 0.2:
                thresholds.append([float(2.0 ** -int(rng.integers(2, 8))), float(2.0 ** -int(rng.integers(1, 7)))])
            elif rng.random() < 0.06:
                # tx so large that no segment / gap can be wider than 2*tx: nothing is inserted, the rest of the contract stays
                thresholds.append([float(pick(rng, [0.5, 0.75, 1.0, 2.0])), float(10.0 ** rng.uniform(-2.5, -0.3))])
            else:
                thresholds.append([float(10.0 ** rng.uniform(-2.5, -0.3)), float(10.0 ** rng.uniform(-2.5, -0.3))])
        yield {'points': pts, 'family': fam, 'layout': lay or gen.pick_layout(rng, pts), 'reduction': red,
               'thresholds': thresholds, 'grid_step': (int(2 ** int(rng.integers(0, grid))) if grid else 0),
               'kseed': int(rng.integers(0, 2 ** 31))}


# -------------------------------------------------------------------- run_case

def reduce_curve(ctx, mods, pts, g):
    rdp = mods['rdp']
    try:
        if g['name'] == 'rdp_fixed':
            return rdp.rdp_fixed(pts, g['length'], distance(mods, g['distance']), order(mods, g['order']))
        return rdp.rdp(pts, g['t'], distance(mods, g['distance']), cost(mods, g['cost']))
    except HarnessError:
        raise
    except (Exception, LoopBoundExceeded) as e:      # a failing simplifier is C01's business
        ctx.ood('reduction', f"raised:rdp.{g['name']}:{type(e).__name__}")
        return None


def run_case(ctx, mods, case):
    pp = mods['postprocessing']
    pts = gen.present(case['points'], case['layout'])
    n = len(pts)
    ctx.h('family', case['family'])
    ctx.h('layout', case['layout'])
    if flat_reason(pts):
        ctx.ood('workload', flat_reason(pts))        # the library divides by the zero range: not a valid input
        return
    res = reduce_curve(ctx, mods, pts, case['reduction'])
    if res is None:
        return
    try:
        reduced, removed = res
        red = index_vector(reduced)
    except Exception:
        ctx.ood('reduction', 'not-a-pair')
        return
    why = reduction_reason(red, removed, n)
    if why:
        ctx.ood('reduction', why)                     # malformed reduction: C01 / C07
        return
    ctx.h('reducer', case['reduction']['name'])
    k = len(red)
    prng = np.random.default_rng(int(case['kseed']))

    # knees as positions of the reduced curve (may be empty)
    u = prng.random()
    if u < 0.15:
        kpos = np.zeros(0, dtype=int)
    elif u < 0.35:
        kpos = gen.knee_subset(prng, k, 1, 12, lo=0, hi=k - 1)
    else:
        kpos = gen.knee_subset(prng, k, 1, 12)
    # markers: original indices, at least one
    step = int(case.get('grid_step') or 0)
    if step and n - 1 >= 2 * step:
        pool = np.arange(step, n - 1, step)            # multiples of a power of two: exact ties w == 2*tx
        size = int(prng.integers(1, min(len(pool), 8) + 1))
        marks = np.sort(prng.choice(pool, size=size, replace=False)).astype(int)
    elif len(kpos) and prng.random() < 0.5:
        marks = red[kpos].astype(int)
    else:
        marks = gen.knee_subset(prng, n, 1, 12, lo=0, hi=n - 1) if (n < 3 or prng.random() < 0.2) \
            else gen.knee_subset(prng, n, 1, 12)

    for tx, ty in case['thresholds']:
        for extremes in (False, True):
            ok, _ = install.guarded(ctx, 'complete:postprocessing.add_points_even', pp.add_points_even,
                                    pts, reduced, kpos, removed, tx, ty, extremes)
            if ok:
                ctx.ok('complete')
            if len(marks) == 0:
                ctx.ood(KNEES, 'empty-marker-set')
                continue
            ok, _ = install.guarded(ctx, 'complete:postprocessing.add_points_even_knees', pp.add_points_even_knees,
                                    pts, marks, tx, ty, extremes)
            if ok:
                ctx.ok('complete')
