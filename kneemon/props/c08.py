"""C08 - the end-to-end pipeline yields valid, ordered knees of the original curve."""
import numpy as np

from .. import gen, install, loops
from ..common import COSTS, DISTANCES, LINKAGES, ORDERS, RANKINGS, cost, distance, order, pick, shard_count

META = {
    'refill': True,      # cases presented in a reused buffer are followed by a refill of that buffer (runner)
    'rule': ('cases = curve (12 synthetic families + the bundled traces usr0, web0_reduced, web2) x simplifier in {rdp, grdp, '
             'rdp_fixed, mp_grdp, min_point_rdp} with random Distance/Metrics/Order/threshold/size x detector in {curvature, dfdt, '
             'menger, lmethod, kneedle} (multi_knee on the reduced curve, t1 = 10^U(-3,-1)) x corner threshold U(0,1) x linkage x '
             'cluster threshold 10^U(-2.5,0) x ranking mode in {left, linear, right, hull}; the demo pipeline is re-created stage by '
             'stage and the values flowing between the public calls are checked (completion, loop bounds, subsequence law per filter '
             'stage, non-increasing heights from the worst-knee stage on, final indices strictly increasing, retained, coordinates '
             'equal to the reduced-space knees). distinct = digest(curve, configuration); non-trivial = >= 2 knees reach the mapping stage'),
    'require': {'pipeline-complete': 2500, 'stage-subsequence': 7000, 'final-mapping': 2500, 'nontrivial': 500},
    'scale': {'quick': 1, 'thorough': 36},
    'quick_cases': 10000, 'thorough_cases': 150000,
    'timeout': {'quick': 900, 'thorough': 5400},
    'assumptions': ['each stage is driven with the public call the demos use; parameters outside a stage\'s documented domain are not generated',
                    'the optional add_points_even tail is only checked for completion and index validity (C14 decides its content)'],
}

SIMPLIFIERS = ['rdp', 'grdp', 'rdp_fixed', 'mp_grdp', 'min_point_rdp']
DETECTORS = ['curvature', 'dfdt', 'menger', 'lmethod', 'kneedle']


def setup(ctx, mods):
    return {'loops': loops.standard(ctx, mods)}


def config(rng, n):
    cs = pick(rng, COSTS)
    return {'simplifier': pick(rng, SIMPLIFIERS), 'distance': pick(rng, DISTANCES), 'cost': cs, 'order': pick(rng, ORDERS),
            't': gen.threshold(rng, cs) if rng.random() < 0.5 else (0.9 if cs == 'r2' else 0.01),
            'length': int(rng.integers(0, n + 3)) if rng.random() < 0.5 else int(rng.integers(5, 40)),
            'tlist': [float(10.0 ** rng.uniform(-4, -1)) for _ in range(int(rng.integers(1, 4)))],
            'detector': pick(rng, DETECTORS), 't1': float(10.0 ** rng.uniform(-3, -1)),
            'corner_t': float(rng.uniform(0, 1)), 'linkage': pick(rng, LINKAGES), 'cluster_t': float(10.0 ** rng.uniform(-2.5, 0)),
            'ranking': pick(rng, RANKINGS) if rng.random() < 0.7 else 'hull', 'even': bool(rng.random() < 0.25)}


def cases(rng, tier, shard, nshards):
    total = META['quick_cases'] if tier == 'quick' else META['thorough_cases']
    if shard < (2 if tier == 'quick' else 6):
        # a long curve that the simplifier keeps in full (thousands of reduced points) and whose knees peel off next to the
        # left end: the decomposition is a chain about n/2 levels deep
        n = int(rng.integers(2500, 3400))
        x = np.arange(1, n + 1, dtype=float)
        c = config(rng, n)
        c.update({'points': np.ascontiguousarray(np.column_stack((x, 1000.0 / x))), 'family': 'hyperbola-long', 'layout': 'C',
                  'simplifier': 'rdp_fixed', 'length': n, 'detector': pick(rng, ['curvature', 'menger']), 't1': 1e-4, 'even': False})
        yield c
    for i in range(shard_count(total, shard, nshards)):
        r = rng.random()
        if tier == 'thorough' and r < 0.01:
            pts, meta = gen.curve(rng, nmax=3000, nmin=500)
        elif r < 0.15:
            pts, meta = gen.curve(rng, nmax=500, nmin=80)
        else:
            pts, meta = gen.curve(rng, nmax=80)
        if rng.random() < 0.06:
            # staircase with a steep drop then plateaus creeping UP by parts in 1e10..1e13: the knees at the step feet are
            # near-ties that are not ties, so the worst-knee stage must drop the later, slightly higher ones
            k = int(rng.integers(3, 7))
            w = int(rng.integers(4, 10))
            base = float(pick(rng, [1.0, 37.5, 2.32e11, 0.004]))
            lv = [base * 3.0] + [base * (1.0 + j * float(pick(rng, [4e-10, 1e-11, 3e-13]))) for j in range(k)]
            y = np.repeat(np.array(lv), w)
            y[:w] = np.linspace(base * 6.0, base * 3.0, w)
            x = np.arange(1, len(y) + 1, dtype=float)
            pts, meta = np.ascontiguousarray(np.column_stack((x, y))), {'family': 'stairs-creeping-up'}
        lay = None
        if rng.random() < 0.03:
            # integral coordinates of magnitude 1e9..1e10 as int64 (bytes against microseconds)
            pts, meta, lay = gen.large_int_curve(rng, nmax=60), {'family': 'large-int64'}, 'i64'
        c = config(rng, len(pts))
        c.update({'points': pts, 'family': meta['family'], 'layout': lay or gen.pick_layout(rng, pts)})
        if rng.random() < 0.3:       # history: a second pipeline configuration on the SAME array
            c['follow'] = config(rng, len(pts))
        yield c
    # bundled traces (the demos' actual inputs)
    traces = [('web0_reduced.csv', 1), ('usr0.csv', 1), ('web2.csv', 40 if tier == 'quick' else 1)]
    reps = 2 if tier == 'quick' else 6
    j = 0
    for name, stride in traces:
        tr = gen.trace(name)
        if tr is None:
            continue
        for rep in range(reps):
            if j % nshards == shard:
                c = config(rng, 60)
                big = len(tr) // stride > 20000
                if big:      # the demos run threshold RDP on whole traces; global variants are quadratic there
                    c['simplifier'] = 'rdp'
                    c['t'] = 0.9 if c['cost'] == 'r2' else 0.01
                c['length'] = int(rng.integers(10, 60))
                c.update({'trace': name, 'stride': stride, 'family': 'trace:' + name, 'layout': 'C'})
                yield c
            j += 1


def _subseq(a, b):
    """a is a subsequence of b (both 1-D)."""
    it = iter(b.tolist())
    return all(any(x == y for y in it) for x in a.tolist())


def run_case(ctx, mods, case):
    if 'trace' in case:
        pts = np.ascontiguousarray(gen.trace(case['trace'])[::case['stride']])
    else:
        pts = gen.present(case['points'], case['layout'])
    run_pipeline(ctx, mods, case, pts)
    if case.get('follow'):
        ctx.h('history', 'second pipeline on the same array')
        run_pipeline(ctx, mods, dict(case['follow'], points=case.get('points'), family=case['family'],
                                     **({'trace': case['trace']} if 'trace' in case else {})), pts)


def run_pipeline(ctx, mods, case, pts):
    rdp, pp, cl, kr = mods['rdp'], mods['postprocessing'], mods['clustering'], mods['knee_ranking']
    n = len(pts)
    s = case['simplifier']
    d, c, o = distance(mods, case['distance']), cost(mods, case['cost']), order(mods, case['order'])
    if s == 'rdp':
        call = lambda: rdp.rdp(pts, case['t'], d, c)
    elif s == 'grdp':
        call = lambda: rdp.grdp(pts, case['t'], d, c, o)
    elif s == 'rdp_fixed':
        call = lambda: rdp.rdp_fixed(pts, case['length'], d, o)
    elif s == 'mp_grdp':
        call = lambda: rdp.mp_grdp(pts, case['t'], case['length'], d, c, o)
    else:
        call = lambda: rdp.min_point_rdp(pts, list(case['tlist']), case['length'])
    ok, res = install.guarded(ctx, f'stage:simplify:rdp.{s}', call)
    if not ok:
        return
    reduced, removed = res
    # the simplify stage hands over positions of the original curve: anything else cannot even be indexed
    rr = np.asarray(reduced)
    okred = rr.ndim == 1 and len(rr) >= 1 and rr.dtype.kind in 'iu' and int(rr.min()) >= 0 and int(rr.max()) <= n - 1 \
        and bool(np.all(np.diff(rr) > 0))
    if not ctx.check(okred, 'final-mapping', 'stage:simplify:invalid-reduction',
                     f'rdp.{s} handed over {rr.tolist()[:30]}: not a strictly increasing set of positions of a curve of {n} points',
                     simplifier=s):
        return
    pr = pts[reduced]
    det = case['detector']
    t2 = {'curvature': 3, 'dfdt': 3, 'menger': 4, 'lmethod': 4, 'kneedle': 3}[det]
    ok, knees = install.guarded(ctx, f'stage:detect:{det}.multi_knee', mods[det].multi_knee, pr, case['t1'], t2)
    if not ok:
        return
    stages = [('detect', np.asarray(knees))]
    ok, k1 = install.guarded(ctx, 'stage:filter_worst_knees', pp.filter_worst_knees, pr, knees)
    if not ok:
        return
    stages.append(('worst', np.asarray(k1)))
    ok, k2 = install.guarded(ctx, 'stage:filter_corner_knees', pp.filter_corner_knees, pr, k1, case['corner_t'])
    if not ok:
        return
    stages.append(('corner', np.asarray(k2)))
    mode = case['ranking']
    ok, k3 = install.guarded(ctx, f'stage:filter_clusters:{mode}', pp.filter_clusters, pr, k2, getattr(cl, case['linkage']),
                             case['cluster_t'], kr.ClusterRanking(mode))
    if not ok:
        return
    stages.append(('cluster', np.asarray(k3)))
    if len(removed) >= 2 and (len(pts) + len(k3)) % 4 == 0:
        # the mapping stage's other documented form: the removed table in any row order with sorted=False
        rem = np.asarray(removed)
        perm = np.roll(np.arange(len(rem)), len(k3) + 1)[::-1]
        ctx.h('mapping_form', 'sorted=False, permuted rows')
        ok, out = install.guarded(ctx, 'stage:mapping', lambda: rdp.mapping(k3, reduced, rem[perm], sorted=False))
    else:
        ctx.h('mapping_form', 'default')
        ok, out = install.guarded(ctx, 'stage:mapping', rdp.mapping, k3, reduced, removed)
    if not ok:
        return
    ctx.ok('pipeline-complete')
    out = np.asarray(out)
    # every filter stage returns a subsequence of its input
    for (na, a), (nb, b) in zip(stages[:-1], stages[1:]):
        ctx.check(b.ndim == 1 and _subseq(b, a), 'stage-subsequence', f'stage:{nb}:not-subsequence',
                  f'output of the {nb} stage {b.tolist()[:30]} is not a subsequence of its input {a.tolist()[:30]}',
                  detector=det, ranking=mode)
    # heights non-increasing from the worst-knee stage on
    for name, k in stages[1:]:
        if len(k) >= 2:
            h = np.asarray(pr[k.astype(int)][:, 1], dtype=float)
            ctx.check(bool(np.all(np.diff(h) <= 0)), 'heights', f'stage:{name}:heights-increase',
                      f'knee heights increase left to right after the {name} stage: {h.tolist()[:20]}', knees=k[:30])
    # final indices
    k3i = np.asarray(k3).astype(int)
    good = out.ndim == 1 and len(out) == len(k3i)
    if good and len(out):
        rset = set(int(v) for v in np.asarray(reduced).tolist())
        good = bool(np.all(np.diff(out) > 0)) and all(int(v) in rset for v in out.tolist()) \
            and bool(np.array_equal(np.asarray(pts[out.astype(int)], dtype=float), np.asarray(pr[k3i], dtype=float)))
    ctx.check(good, 'final-mapping', 'final:mapping',
              f'final indices {out.tolist()[:30]} are not the strictly increasing retained points of the reduced-space knees {k3i.tolist()[:30]}',
              reduced=np.asarray(reduced)[:60], simplifier=s, detector=det)
    if case.get('even') and float(np.ptp(np.asarray(pts[:, 1], dtype=float))) > 0:      # non-flat curves only (C14's domain)
        ok, ev = install.guarded(ctx, 'stage:add_points_even', pp.add_points_even, pts, reduced, k3i, removed)
        if ok:
            ev = np.asarray(ev)
            ctx.check(ev.ndim == 1 and (len(ev) == 0 or (ev.min() >= 0 and ev.max() < n and bool(np.all(np.diff(ev) > 0)))),
                      'even-tail', 'tail:add_points_even:index', f'add_points_even returned invalid indices {ev.tolist()[:30]} (n={n})')
    ctx.h('simplifier_x_detector', f'{s}/{det}')
    ctx.h('ranking_x_linkage', f"{mode}/{case['linkage']}")
    sizes = '>'.join(str(len(k)) if len(k) < 10 else '10+' for _, k in stages)
    ctx.h('stage_sizes(detect>worst>corner>cluster)', sizes)
    ctx.h('family', case['family'].split(':')[0])
    if len(k3i) >= 2:
        ctx.nontriv(pts if 'trace' in case else case['points'], s, det, mode, case['linkage'], case['t'], case['t1'],
                    case['corner_t'], case['cluster_t'], case['length'])
        ctx.sample({'family': case['family'], 'n': n, 'simplifier': s, 'detector': det, 'ranking': mode, 'linkage': case['linkage'],
                    'retained': len(reduced), 'stages': {nm: k.tolist()[:12] for nm, k in stages}, 'final': out.tolist()[:12]})
