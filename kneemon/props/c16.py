"""C16 - regression metrics and linear-fit helpers equal their definitions (DESIGN.md section 4, C16).

Postcondition monitors on kneeliverse.metrics.{r2,rmse,rmsle,rmspe,rpd,smape,residuals} (numba
dispatchers are module attributes like any other; the linear_fit wrappers reach them through
``metrics.<name>``, so those internal calls are seen too) and on the linear_fit helpers.

Oracle construction (DESIGN section 3):
* reference-model rule - textbook formulas, eps guards included, evaluated in np.longdouble; rtol 1e-9
  plus an absolute floor derived from the data (see ``metric_reference``).  Given exact inputs every
  metric is a sum of non-negative, individually well-conditioned terms (a difference of two floats is
  correctly rounded), so the relative metrics are compared numerically even at y = 0; only the log
  difference of rmsle and TSS of R2 carry cancellation, and their floors / skip rules say so.
* same-primitive rule - ``linear_fit.<metric>(x, y, coef)`` must be bit-identical (NaN-aware) to the
  saved original ``metrics.<metric>`` applied to the identical expression ``x*m + b``.
* structural clauses - symmetry, >= 0, exactly 0 at y == y_hat, smape <= 2, R2 <= 1.
"""
from fractions import Fraction

import math

import numpy as np

from .. import install
from ..common import EPS, pick, shard_count
from ..ctx import HarnessError

LD = np.longdouble
RTOL = 1e-9
DEFAULT_EPS = 1e-16

METRICS = ['r2', 'rmse', 'rmsle', 'rmspe', 'rpd', 'smape', 'residuals']
ERROR_METRICS = ['rmse', 'rmsle', 'rmspe', 'rpd', 'smape', 'residuals']
SYMMETRIC = ['rmse', 'smape', 'residuals']
THIRD = {'r2': 'r2', 'rmspe': 'eps', 'rpd': 'eps', 'smape': 'eps'}
NEEDS_NONNEG = ['rmsle', 'rmspe', 'rpd']          # logarithms / ratios: the statement restricts these to y, y_hat >= 0

# linear_fit wrapper -> (metric, has an eps parameter, forwards it to the metric)
WRAPPERS = {'rmspe': ('rmspe', True, False), 'rmsle': ('rmsle', False, False), 'smape': ('smape', True, True),
            'rpd': ('rpd', True, True), 'rmse': ('rmse', False, False),
            'linear_residuals': ('residuals', False, False)}

META = {
    'rule': ('cases = vector pairs (y, y_hat) of length 1..200, magnitude 10^U(-3,6) (8 %: small units 10^U(-12,-3)), classes {independent, '
             'proportional noise, y == y_hat, near-equal (relative 1e-6..1e-15), zeros, constant y, mixed sign, '
             'integer-valued, near a line}, each vector presented as float64 contiguous / strided view / int64 / '
             'strided int64 (one numba specialisation per dtype x layout pair), plus abscissae x and an (n,2) point '
             'array in C / Fortran / strided / int64 layout driven through every linear_fit wrapper with the '
             'end-point fit and a random line; R2 variants classic and adjusted (n >= 3). distinct = digest(y, y_hat, '
             'layouts); non-trivial = y != y_hat'),
    'require': {'model:r2': 2400, 'model:rmse': 6500, 'model:rmsle': 4500, 'model:rmspe': 4500, 'model:rpd': 5500,
                'model:smape': 8000, 'model:residuals': 14000, 'symmetry': 29000, 'sign': 44000, 'zero': 3500,
                'bound:smape': 8000, 'bound:r2': 17000, 'wrapper': 130000, 'wrapper:linear_r2': 15000,
                'endpoint-fit': 9900, 'lf.r2:pearson': 2200, 'lf.r2:adjusted': 2200, 'lf.r2:constant-y': 380,
                'nontrivial': 1150},
    'scale': {'quick': 1, 'thorough': 20},
    'shards': {'quick': 16, 'thorough': 16},
    'quick_cases': 4000, 'thorough_cases': 120000,
    'timeout': {'quick': 600, 'thorough': 3000},
    'assumptions': ['np.longdouble has a 64-bit mantissa on this platform (checked at start-up)',
                    'numeric equality of R2 is not asserted when TSS < 1e-9*max|y|^2 (cancellation) unless y is '
                    'constant with an exactly computable mean',
                    'rmsle / rmspe / rpd are asserted on y, y_hat >= 0 only (the statement\'s domain)',
                    'linear_fit.rmspe does not forward its eps argument; the wrapper clause is asserted with the '
                    'default eps only',
                    'Pearson correlation is undefined for constant x (out-of-domain); constant y is asserted to give '
                    'a non-NaN value equal to 1.0 (repaired convention, D12)'],
}


# ------------------------------------------------------------------ helpers

def ld(a):
    return np.asarray(a).astype(LD)


def is_vec(a):
    return isinstance(a, np.ndarray) and a.ndim == 1 and a.dtype.kind in 'iuf'


def finite(a):
    return a.dtype.kind != 'f' or bool(np.all(np.isfinite(a)))


def same(a, b):
    """NaN-aware exact equality of two scalars / arrays / tuples."""
    if isinstance(a, tuple) or isinstance(b, tuple):
        return isinstance(a, tuple) and isinstance(b, tuple) and len(a) == len(b) and all(same(p, q) for p, q in zip(a, b))
    a = np.asarray(a, dtype=float)
    b = np.asarray(b, dtype=float)
    if a.shape != b.shape:
        return False
    return bool(np.all((a == b) | (np.isnan(a) & np.isnan(b))))


def sig(a):
    a = np.asarray(a)
    return f"{a.dtype.kind}{a.dtype.itemsize}{'C' if a.flags['C_CONTIGUOUS'] else 'A'}"


def lenclass(n):
    return str(n) if n <= 3 else ('4-9' if n < 10 else ('10-99' if n < 100 else '100+'))


def bind(names, defaults, args, kwargs):
    """Positional/keyword binding; returns list of values or None."""
    if len(args) > len(names):
        return None
    d = dict(zip(names, args))
    for k, v in kwargs.items():
        if k not in names or k in d:
            return None
        d[k] = v
    out = []
    for n in names:
        if n in d:
            out.append(d[n])
        elif n in defaults:
            out.append(defaults[n])
        else:
            return None
    return out


def is_adjusted(kind):
    return getattr(kind, 'value', None) == 'adjusted'


def is_classic(kind):
    return getattr(kind, 'value', None) == 'classic'


def mean_is_exact(c, n):
    """All partial sums k*c (k <= n) are representable, so any summation order gives mean == c exactly."""
    fr = Fraction(float(c))
    return (abs(fr.numerator) * n).bit_length() <= 53


def f(v):
    return float(v)


# ------------------------------------------------------------------ reference model (long double)

def metric_reference(name, y, yh, eps, adjusted):
    """Textbook value and absolute floor; returns (ref, floor, info) or (None, None, reason) when skipped."""
    Y, H = ld(y), ld(yh)
    n = len(Y)
    scale = max(float(np.max(np.abs(Y))), float(np.max(np.abs(H))))
    d = Y - H
    E = LD(eps)
    if name == 'rmse':
        return np.sqrt(np.sum(d * d) / n), LD(EPS) * scale, ''
    if name == 'residuals':
        return np.sum(d * d), LD(n) * (LD(EPS) * scale) ** 2, ''
    if name == 'rmsle':
        ly, lh = np.log(Y + 1), np.log(H + 1)
        maxlog = max(float(np.max(np.abs(ly))), float(np.max(np.abs(lh))))
        dl = ly - lh
        # fl(y+1) and the library log each carry ~1 ulp: absolute error eps*(1+|log|) per term
        return np.sqrt(np.sum(dl * dl) / n), LD(8 * EPS * (1 + maxlog)), ''
    if name == 'rmspe':
        q = d / (Y + E)
        return np.sqrt(np.sum(q * q) / n), LD(8 * EPS), ''
    if name == 'rpd':
        return np.sum(np.abs(d / (np.maximum(Y, H) + E))) / n, LD(8 * EPS), ''
    if name == 'smape':
        return np.sum(2 * np.abs(H - Y) / (np.abs(Y) + np.abs(H) + E)) / n, LD(8 * EPS), ''
    if name == 'r2':
        k = LD(n - 1) / LD(n - 2) if adjusted else LD(1)
        rss = np.sum(d * d)
        mean = np.sum(Y) / n
        dm = Y - mean
        tss = np.sum(dm * dm)
        ys = float(np.max(np.abs(Y)))
        if np.all(Y == Y[0]):
            if not mean_is_exact(float(Y[0]), n):
                return None, None, 'constant y, mean not exactly computable'
            rv, q, info = 1 - rss, rss, 'constant-y'
        elif tss < 1e-9 * ys * ys:
            return None, None, 'TSS < 1e-9*scale^2 (cancellation)'
        else:
            q = rss / tss
            rv, info = 1 - q, ''
        if adjusted:
            rv = 1 - (1 - rv) * k
        return rv, LD(RTOL) * (1 + q) * k, info
    raise HarnessError(name)


def line_r2_reference(x, y):
    """Squared Pearson correlation, two-pass, long double.  Returns (r2, Sxx, Syy, scales)."""
    X, Y = ld(x), ld(y)
    n = len(X)
    mx, my = np.sum(X) / n, np.sum(Y) / n
    dx, dy = X - mx, Y - my
    sxx, syy, sxy = np.sum(dx * dx), np.sum(dy * dy), np.sum(dx * dy)
    return sxx, syy, sxy


# ------------------------------------------------------------------ monitors on metrics.*

def make_metric_post(name, R2enum):
    names = ('y', 'y_hat') + ((THIRD[name],) if name in THIRD else ())
    defaults = {'eps': DEFAULT_EPS, 'r2': R2enum.classic}

    def post(ctx, original, args, kwargs, result):
        mon = f'model:{name}'
        b = bind(names, defaults, args, kwargs)
        if b is None:
            return ctx.ood(mon, 'unbound')
        y, yh = b[0], b[1]
        eps, kind = DEFAULT_EPS, None
        if name in THIRD:
            if THIRD[name] == 'eps':
                eps = b[2]
            else:
                kind = b[2]
        if not (is_vec(y) and is_vec(yh)) or len(y) != len(yh) or len(y) < 1:
            return ctx.ood(mon, 'shape')
        if not (finite(y) and finite(yh)):
            return ctx.ood(mon, 'nonfinite')
        n = len(y)
        if name == 'r2':
            if not (is_adjusted(kind) or is_classic(kind)):
                return ctx.ood(mon, 'r2 kind')
            if is_adjusted(kind) and n < 3:
                return ctx.ood(mon, 'adjusted with n < 3')
        if name in THIRD and THIRD[name] == 'eps':
            if not isinstance(eps, (int, float, np.floating)) or not (0 < float(eps) < 1):
                return ctx.ood(mon, 'eps')
        if name in NEEDS_NONNEG and (np.min(y) < 0 or np.min(yh) < 0):
            return ctx.ood(mon, 'negative entries')
        scale = max(float(np.max(np.abs(ld(y)))), float(np.max(np.abs(ld(yh)))))
        if scale > 1e100 or (0 < scale < 1e-100):
            return ctx.ood(mon, 'magnitude')
        adjusted = is_adjusted(kind)
        w = {'y': y, 'y_hat': yh, 'function': name}
        if name in THIRD:
            w['third'] = str(kind) if name == 'r2' else float(eps)
        try:
            res = float(result)
        except Exception:
            return ctx.violation(mon, f'metric:{name}', f'result is not a number: {result!r}', **w)
        ctx.h('metric_x_layout', f'{name}/{sig(y)}-{sig(yh)}')
        ctx.h('length', lenclass(n))
        equal = bool(np.array_equal(y, yh))

        # 1. the textbook value
        ref, floor, info = metric_reference(name, y, yh, eps, adjusted)
        if ref is None:
            ctx.ood(mon, info)
        else:
            tol = floor + LD(RTOL) * abs(ref)
            err = abs(LD(res) - ref)
            clause = f'metric:{name}' + (':constant-y' if info else '') + (':adjusted' if adjusted else '')
            good = ctx.check(bool(err <= tol), mon, clause,
                             f'metrics.{name} = {res!r}, long-double reference {f(ref)!r} (tol {f(tol):.3g})',
                             got=res, expected=f(ref), **w)
            if good:
                ctx.mx(f'slack:{name}', f(err / tol) if tol > 0 else 0.0)
                ctx.sample({'function': f'metrics.{name}', 'y_head': y[:5], 'y_hat_head': yh[:5], 'n': n,
                            'third': w.get('third'), 'result': res, 'reference': f(ref)}, cap=3 if name != 'rpd' else 4)
            if info:
                ctx.h('degenerate', f'{name}:constant-y')

        # 2. structural clauses
        if name in ERROR_METRICS:
            ctx.check(res >= 0.0, 'sign', f'sign:{name}', f'metrics.{name} = {res!r} is negative (or NaN)', got=res, **w)
            if equal:
                ctx.h('degenerate', f'{name}:y==y_hat')
                ctx.check(res == 0.0, 'zero', f'zero:{name}', f'metrics.{name} = {res!r} at y == y_hat', got=res, **w)
        if name == 'smape':
            ctx.check(res <= 2.0 + 4 * n * EPS, 'bound:smape', 'bound:smape', f'smape = {res!r} > 2', got=res, **w)
        if name == 'r2':
            k = (n - 1) / (n - 2) if adjusted else 1.0
            ctx.check(res <= 1.0 + 64 * EPS * k, 'bound:r2', 'bound:r2', f'R2 = {res!r} > 1', got=res, **w)
        if name in SYMMETRIC:
            extra = (eps,) if (name == 'smape' and (len(args) > 2 or 'eps' in kwargs)) else ()
            sw = float(original(yh, y, *extra))
            d = abs(sw - res)
            lim = 4 * EPS * max(abs(sw), abs(res))
            ctx.check(d <= lim, 'symmetry', f'symmetry:{name}',
                      f'metrics.{name}(y, y_hat) = {res!r} but metrics.{name}(y_hat, y) = {sw!r}', got=res, swapped=sw, **w)
            if lim > 0:
                ctx.mx(f'slack:symmetry:{name}', d / lim)
    return post


# ------------------------------------------------------------------ monitors on linear_fit.*

def _xy(points):
    return points[:, 0], points[:, 1]


def _is_points(p):
    return isinstance(p, np.ndarray) and p.ndim == 2 and p.shape[1] == 2 and p.shape[0] >= 1 and p.dtype.kind in 'iuf'


def _coef(coef):
    try:
        b, m = coef
        float(b), float(m)
        return b, m
    except Exception:
        return None


def make_wrapper_post(wname, points_form):
    metric, has_eps, forwards = WRAPPERS[wname]
    label = f'lf.{wname}_points' if points_form else f'lf.{wname}'
    names = (('points',) if points_form else ('x', 'y')) + ('coef',) + (('eps',) if has_eps else ())

    def post(ctx, original, args, kwargs, result):
        mon = 'wrapper'
        b = bind(names, {'eps': DEFAULT_EPS}, args, kwargs)
        if b is None:
            return ctx.ood(mon, 'unbound')
        if points_form:
            if not _is_points(b[0]):
                return ctx.ood(mon, 'shape')
            x, y = _xy(b[0])
            rest = b[1:]
        else:
            x, y = b[0], b[1]
            rest = b[2:]
            if not (is_vec(x) and is_vec(y)) or len(x) != len(y) or len(x) < 1:
                return ctx.ood(mon, 'shape')
        cf = _coef(rest[0])
        if cf is None:
            return ctx.ood(mon, 'coef')
        bb, m = cf
        eps = rest[1] if has_eps else None
        if has_eps and not forwards and eps != DEFAULT_EPS:
            return ctx.ood(mon, f'{label}: eps is not forwarded to the metric')
        # same-primitive rule: identical expression, saved original metric
        y_hat = x * m + bb
        M = install.orig('metrics', metric)
        exp = M(y, y_hat, eps) if (has_eps and forwards) else M(y, y_hat)
        ctx.h('wrapper_x_layout', f'{label}/{sig(x)}-{sig(y)}')
        ctx.check(same(result, exp), mon, f'wrapper:{label}',
                  f'{label} = {result!r} but metrics.{metric}(y, x*m+b) = {exp!r}',
                  x=x, y=y, coef=[f(bb), f(m)], got=f(result), expected=f(exp))
    return post


def post_linear_fit(ctx, original, args, kwargs, result):
    mon = 'endpoint-fit'
    b = bind(('x', 'y'), {}, args, kwargs)
    if b is None:
        return ctx.ood(mon, 'unbound')
    x, y = b
    if not (is_vec(x) and is_vec(y)) or len(x) != len(y) or len(x) < 1:
        return ctx.ood(mon, 'shape')
    if not (finite(x) and finite(y)):
        return ctx.ood(mon, 'nonfinite')
    if x[0] == x[-1]:
        ctx.h('degenerate', 'linear_fit:x[0]==x[-1]')
        return ctx.ood(mon, 'x[0] == x[-1] (no line through both end points)')
    cf = _coef(result)
    if cf is None:
        return ctx.violation(mon, 'endpoint-fit', f'result is not a (b, m) pair: {result!r}', x=x, y=y)
    bb, m = LD(cf[0]), LD(cf[1])
    x0, xn, y0, yn = LD(x[0]), LD(x[-1]), LD(y[0]), LD(y[-1])
    scale = max(abs(y0), abs(yn), abs(m * x0), abs(m * xn), abs(bb))
    if scale > 1e150:
        return ctx.ood(mon, 'magnitude')
    e0 = abs(m * x0 + bb - y0)
    en = abs(m * xn + bb - yn)
    tol = 8 * LD(EPS) * scale
    ok = bool(e0 <= tol and en <= tol)
    ctx.check(ok, mon, 'endpoint-fit',
              f'end-point fit (b={f(bb)!r}, m={f(m)!r}) misses the first point by {f(e0):.3g} / the last point by '
              f'{f(en):.3g} (tol {f(tol):.3g})', x=x, y=y, got=[f(bb), f(m)])
    if ok and tol > 0:
        ctx.mx('slack:endpoint-fit', f(max(e0, en) / tol))
        ctx.sample({'function': 'linear_fit.linear_fit', 'x_head': x[:4], 'y_head': y[:4], 'x_last': x[-1],
                    'y_last': y[-1], 'b': f(bb), 'm': f(m)}, cap=5)


def post_linear_fit_points(ctx, original, args, kwargs, result):
    b = bind(('points',), {}, args, kwargs)
    if b is None or not _is_points(b[0]):
        return ctx.ood('wrapper', 'shape')
    x, y = _xy(b[0])
    exp = install.orig('linear_fit', 'linear_fit')(x, y)
    ctx.check(same(tuple(result), tuple(exp)), 'wrapper', 'wrapper:lf.linear_fit_points',
              f'linear_fit_points = {result!r} but linear_fit(x, y) = {exp!r}', points=b[0])


def make_transform_post(points_form):
    def post(ctx, original, args, kwargs, result):
        b = bind(('points' if points_form else 'x', 'coef'), {}, args, kwargs)
        if b is None:
            return ctx.ood('wrapper', 'unbound')
        if points_form:
            if not _is_points(b[0]):
                return ctx.ood('wrapper', 'shape')
            x = b[0][:, 0]
        else:
            x = b[0]
            if not is_vec(x):
                return ctx.ood('wrapper', 'shape')
        cf = _coef(b[1])
        if cf is None or not finite(x):
            return ctx.ood('wrapper', 'coef')
        bb, m = cf
        if not (np.isfinite(float(bb)) and np.isfinite(float(m))):
            return ctx.ood('wrapper', 'non-finite coefficients')
        label = 'lf.linear_transform_points' if points_form else 'lf.linear_transform'
        res = np.asarray(result)
        ref = ld(x) * LD(m) + LD(bb)
        tol = 4 * EPS * (np.abs(ld(x) * LD(m)) + abs(LD(bb)))
        ok = res.shape == x.shape and bool(np.all(np.abs(ld(res) - ref) <= tol))
        ctx.check(ok, 'wrapper', f'wrapper:{label}', f'{label} != m*x + b', x=x, coef=[f(bb), f(m)],
                  got=np.asarray(res, dtype=float))
    return post


def make_linear_r2_post(points_form, R2enum):
    def post(ctx, original, args, kwargs, result):
        mon = 'wrapper:linear_r2'
        names = (('points',) if points_form else ('x', 'y')) + ('coef', 'r2')
        b = bind(names, {'r2': R2enum.classic}, args, kwargs)
        if b is None:
            return ctx.ood(mon, 'unbound')
        if points_form:
            if not _is_points(b[0]):
                return ctx.ood(mon, 'shape')
            x, y = _xy(b[0])
            coef, kind = b[1], b[2]
            exp = install.orig('linear_fit', 'linear_r2')(x, y, coef, kind)
            return ctx.check(same(result, exp), mon, 'wrapper:lf.linear_r2_points',
                             f'linear_r2_points = {result!r} but linear_r2(x, y, coef, r2) = {exp!r}',
                             points=b[0], coef=[f(coef[0]), f(coef[1])], kind=str(kind))
        x, y, coef, kind = b
        if not (is_vec(x) and is_vec(y)) or len(x) != len(y) or len(x) < 1:
            return ctx.ood(mon, 'shape')
        cf = _coef(coef)
        if cf is None or not (finite(x) and finite(y)):
            return ctx.ood(mon, 'coef/nonfinite')
        if not (is_adjusted(kind) or is_classic(kind)):
            return ctx.ood(mon, 'r2 kind')
        n = len(x)
        adjusted = is_adjusted(kind)
        if adjusted and n < 3:
            return ctx.ood(mon, 'adjusted with n < 3')
        bb, m = cf
        y_hat = x * m + bb                  # the identical expression, hence the identical float64 vector
        if not np.all(np.isfinite(y_hat)):
            return ctx.ood(mon, 'nonfinite line')
        scale = max(float(np.max(np.abs(ld(y)))), float(np.max(np.abs(ld(y_hat)))))
        if scale > 1e100:
            return ctx.ood(mon, 'magnitude')
        ref, floor, info = metric_reference('r2', y, y_hat, DEFAULT_EPS, adjusted)
        res = float(result)
        w = {'x': x, 'y': y, 'coef': [f(bb), f(m)], 'kind': str(kind)}
        if ref is None:
            ctx.ood(mon, info)
        else:
            tol = floor + LD(RTOL) * abs(ref)
            err = abs(LD(res) - ref)
            clause = 'wrapper:lf.linear_r2' + (':constant-y' if info else '') + (':adjusted' if adjusted else '')
            if ctx.check(bool(err <= tol), mon, clause,
                         f'linear_r2 = {res!r}, R2 of m*x+b (long double) = {f(ref)!r} (tol {f(tol):.3g})',
                         got=res, expected=f(ref), **w):
                ctx.mx('slack:linear_r2', f(err / tol))
            if info:
                ctx.h('degenerate', 'linear_r2:constant-y')
        k = (n - 1) / (n - 2) if adjusted else 1.0
        ctx.check(res <= 1.0 + 64 * EPS * k, 'bound:r2', 'bound:lf.linear_r2', f'linear_r2 = {res!r} > 1', got=res, **w)
    return post


def make_fit_residuals_post(points_form):
    def post(ctx, original, args, kwargs, result):
        b = bind(('points',) if points_form else ('x', 'y'), {}, args, kwargs)
        if b is None:
            return ctx.ood('wrapper', 'unbound')
        if points_form:
            if not _is_points(b[0]):
                return ctx.ood('wrapper', 'shape')
            x, y = _xy(b[0])
        else:
            x, y = b
            if not (is_vec(x) and is_vec(y)) or len(x) != len(y) or len(x) < 1:
                return ctx.ood('wrapper', 'shape')
        bb, m = install.orig('linear_fit', 'linear_fit')(x, y)
        exp = install.orig('metrics', 'residuals')(y, x * m + bb)
        label = 'lf.linear_fit_residuals' + ('_points' if points_form else '')
        ctx.check(same(result, exp), 'wrapper', f'wrapper:{label}',
                  f'{label} = {result!r} but residuals(y, fit(x)) = {exp!r}', x=x, y=y)
    return post


def make_hv_post(points_form):
    def post(ctx, original, args, kwargs, result):
        b = bind(('points',) if points_form else ('x', 'y'), {}, args, kwargs)
        if b is None:
            return ctx.ood('wrapper', 'unbound')
        if points_form:
            if not _is_points(b[0]):
                return ctx.ood('wrapper', 'shape')
            x, y = _xy(b[0])
        else:
            x, y = b
            if not (is_vec(x) and is_vec(y)) or len(x) != len(y) or len(x) < 1:
                return ctx.ood('wrapper', 'shape')
        fit = install.orig('linear_fit', 'linear_fit')
        R = install.orig('metrics', 'residuals')
        b1, m1 = fit(x, y)
        b2, m2 = fit(y, x)
        r1, r2_ = R(y, x * m1 + b1), R(x, y * m2 + b2)
        exp = r1 if r1 <= r2_ else r2_
        label = 'lf.linear_hv_residuals' + ('_points' if points_form else '')
        ctx.check(same(result, exp), 'wrapper', f'wrapper:{label}',
                  f'{label} = {result!r} but min(horizontal, vertical residuals) = {exp!r}', x=x, y=y)
    return post


def make_fit_transform_post(points_form):
    """linear_fit_transform: the fitted values of the end-point line; with vertical=True the (target, fitted) pair of
    whichever of the two end-point lines (y on x, x on y) has the smaller residual sum - the y line on a tie."""
    def post(ctx, original, args, kwargs, result):
        b = bind(('points', 'vertical') if points_form else ('x', 'y', 'vertical'), {'vertical': False}, args, kwargs)
        if b is None:
            return ctx.ood('wrapper', 'unbound')
        if points_form:
            if not _is_points(b[0]):
                return ctx.ood('wrapper', 'shape')
            x, y = _xy(b[0])
        else:
            x, y = b[0], b[1]
            if not (is_vec(x) and is_vec(y)) or len(x) != len(y) or len(x) < 1:
                return ctx.ood('wrapper', 'shape')
        vertical = b[-1]
        fit = install.orig('linear_fit', 'linear_fit')
        R = install.orig('metrics', 'residuals')
        b1, m1 = fit(x, y)
        y_hat = x * m1 + b1
        label = 'lf.linear_fit_transform' + ('_points' if points_form else '')
        if not vertical:
            ok = isinstance(result, np.ndarray) and same(result, y_hat)
            ctx.check(ok, 'wrapper', f'wrapper:{label}', f'{label} differs from the end-point line evaluated at x', x=x, y=y,
                      got=result, expected=y_hat)
            return
        b2, m2 = fit(y, x)
        x_hat = y * m2 + b2
        r1, r2_ = R(y, y_hat), R(x, x_hat)
        if not (np.isfinite(r1) and np.isfinite(r2_)):
            return ctx.ood('wrapper', 'nonfinite residuals')
        exp = (y, y_hat) if r1 <= r2_ else (x, x_hat)
        ok = isinstance(result, tuple) and len(result) == 2 and same(result[0], exp[0]) and same(result[1], exp[1])
        ctx.check(ok, 'wrapper', f'wrapper:{label}:vertical',
                  f'{label}(vertical=True) is not the (target, fitted) pair of the end-point line with the smaller residuals '
                  f'(y-line {r1!r}, x-line {r2_!r})', x=x, y=y, got=result, expected=exp)
        ctx.h('fit_transform_vertical', 'x-line' if r1 > r2_ else ('tie' if r1 == r2_ else 'y-line'))
    return post


def make_lf_r2_post(R2enum):
    def post(ctx, original, args, kwargs, result):
        b = bind(('x', 'y', 't'), {'t': R2enum.classic}, args, kwargs)
        if b is None:
            return ctx.ood('lf.r2', 'unbound')
        x, y, kind = b
        if not (is_vec(x) and is_vec(y)) or len(x) != len(y) or len(x) < 1:
            return ctx.ood('lf.r2', 'shape')
        if not (finite(x) and finite(y)):
            return ctx.ood('lf.r2', 'nonfinite')
        if not (is_adjusted(kind) or is_classic(kind)):
            return ctx.ood('lf.r2', 'r2 kind')
        n = len(x)
        adjusted = is_adjusted(kind)
        if n < 2 or (adjusted and n < 3):
            return ctx.ood('lf.r2', 'too few points for the variant')
        res = float(result)
        k = (n - 1) / (n - 2) if adjusted else 1.0
        w = {'x': x, 'y': y, 'kind': str(kind)}
        ctx.h('lf.r2_layout', f'{sig(x)}-{sig(y)}/{kind}')
        X, Y = ld(x), ld(y)
        xs, ys = float(np.max(np.abs(X))), float(np.max(np.abs(Y)))
        if xs > 1e100 or ys > 1e100:
            return ctx.ood('lf.r2', 'magnitude')
        if np.all(X == X[0]):
            ctx.h('degenerate', 'lf.r2:constant-x')
            return ctx.ood('lf.r2', 'constant x (correlation undefined)')
        if np.all(Y == Y[0]):
            ctx.h('degenerate', 'lf.r2:constant-y')
            return ctx.check(res == 1.0, 'lf.r2:constant-y', 'lf.r2:constant-y',
                             f'lf.r2 = {res!r} for constant y (a horizontal line fits exactly: expected 1.0, never NaN)',
                             got=res, **w)
        if n == 2:
            return ctx.check(res == 1.0, 'lf.r2:pearson', 'lf.r2:two-points', f'lf.r2 = {res!r} for two points', got=res, **w)
        sxx, syy, sxy = line_r2_reference(x, y)
        # A centred (two-pass) evaluation in float64 only suffers from the rounding of the two means: a common shift delta of
        # all deviations changes Sxx by n*delta^2 (the first-order term vanishes because the deviations sum to 0), i.e. the
        # correlation by about (delta_x/sigma_x + delta_y/sigma_y)^2, with delta <= eps*|x|max*(log2(n)+1) for a pairwise sum.
        lg = math.log2(n) + 1.0
        cx = EPS * xs * lg / math.sqrt(float(sxx) / n)
        cy = EPS * ys * lg / math.sqrt(float(syy) / n)
        if cx > 1e-3 or cy > 1e-3:
            return ctx.ood('lf.r2', 'level/spread > 1e-3/eps (the means are not resolved in float64)')
        ref = sxy * sxy / (sxx * syy)
        mon, clause = 'lf.r2:pearson', 'lf.r2:pearson'
        if adjusted:
            ref = 1 - (1 - ref) * LD(n - 1) / LD(n - 2)
            mon, clause = 'lf.r2:adjusted', 'lf.r2:adjusted'
        tol = LD(RTOL) * k * max(LD(1), abs(ref)) + LD(8.0 * (cx + cy) ** 2) * k
        err = abs(LD(res) - ref)
        if ctx.check(bool(err <= tol), mon, clause,
                     f'lf.r2 ({kind}) = {res!r}, squared Pearson correlation'
                     f'{" with the (n-1)/(n-2) correction" if adjusted else ""} = {f(ref)!r}', got=res, expected=f(ref), **w):
            ctx.mx('slack:' + clause, f(err / tol))
            ctx.sample({'function': 'linear_fit.r2', 'kind': str(kind), 'x_head': x[:5], 'y_head': y[:5], 'n': n,
                        'result': res, 'reference': f(ref)}, cap=6)
        ctx.check(res <= 1.0 + 64 * EPS * k, 'bound:r2', 'bound:lf.r2', f'lf.r2 = {res!r} > 1', got=res, **w)
    return post


def make_r2_points_post(R2enum):
    def post(ctx, original, args, kwargs, result):
        b = bind(('points', 't'), {'t': R2enum.classic}, args, kwargs)
        if b is None or not _is_points(b[0]):
            return ctx.ood('wrapper', 'shape')
        P, kind = b
        n = len(P)
        if n < 2 or (is_adjusted(kind) and n < 3):
            return ctx.ood('wrapper', 'too few points for the variant')
        x, y = _xy(P)
        exp = install.orig('linear_fit', 'r2')(x, y, kind)
        ctx.check(same(result, exp), 'wrapper', 'wrapper:lf.r2_points',
                  f'r2_points = {result!r} but r2(x, y, t) = {exp!r}', points=P, kind=str(kind))
    return post


def setup(ctx, mods):
    if np.finfo(LD).eps > 1e-18:
        raise HarnessError('np.longdouble is not an extended-precision type on this platform')
    R2enum = mods['metrics'].R2
    for name in METRICS:
        install.monitor(ctx, 'metrics', name, make_metric_post(name, R2enum))
    for wname in WRAPPERS:
        install.monitor(ctx, 'linear_fit', wname, make_wrapper_post(wname, False))
        install.monitor(ctx, 'linear_fit', wname + '_points', make_wrapper_post(wname, True))
    install.monitor(ctx, 'linear_fit', 'linear_fit', post_linear_fit)
    install.monitor(ctx, 'linear_fit', 'linear_fit_points', post_linear_fit_points)
    install.monitor(ctx, 'linear_fit', 'linear_transform', make_transform_post(False))
    install.monitor(ctx, 'linear_fit', 'linear_transform_points', make_transform_post(True))
    install.monitor(ctx, 'linear_fit', 'linear_r2', make_linear_r2_post(False, R2enum))
    install.monitor(ctx, 'linear_fit', 'linear_r2_points', make_linear_r2_post(True, R2enum))
    install.monitor(ctx, 'linear_fit', 'linear_fit_residuals', make_fit_residuals_post(False))
    install.monitor(ctx, 'linear_fit', 'linear_fit_residuals_points', make_fit_residuals_post(True))
    install.monitor(ctx, 'linear_fit', 'linear_hv_residuals', make_hv_post(False))
    install.monitor(ctx, 'linear_fit', 'linear_hv_residuals_points', make_hv_post(True))
    install.monitor(ctx, 'linear_fit', 'linear_fit_transform', make_fit_transform_post(False))
    install.monitor(ctx, 'linear_fit', 'linear_fit_transform_points', make_fit_transform_post(True))
    install.monitor(ctx, 'linear_fit', 'r2', make_lf_r2_post(R2enum))
    install.monitor(ctx, 'linear_fit', 'r2_points', make_r2_points_post(R2enum))
    return {}


# ------------------------------------------------------------------ generator

VLAYOUTS = ['C', 'view', 'i64', 'i64view']
# layout pairs (y, y_hat).  numba compiles one specialisation per function x dtype x layout pair (~0.3 s each), so in
# the quick tier every shard compiles the two pairs the library itself produces (contiguous / column-view y against a
# freshly computed y_hat) plus ONE of the 14 other pairs (16 shards cover all 16 pairs); the thorough tier uses all 16
# pairs in every shard.
ALL_PAIRS = [(a, b) for a in VLAYOUTS for b in VLAYOUTS]
CORE_PAIRS = [('C', 'C'), ('view', 'C')]
OTHER_PAIRS = [p for p in ALL_PAIRS if p not in CORE_PAIRS]
CLASSES = ['rand', 'prop', 'equal', 'near', 'zeros', 'const', 'mixed', 'int', 'int', 'int-near', 'int-near', 'line']
PLAYOUTS = ['C', 'F', 'view', 'i64']


def present1(v, lay):
    v = np.asarray(v)
    n = len(v)
    if lay == 'C':
        return np.ascontiguousarray(v, dtype=float)
    if lay == 'view':
        big = np.full(2 * n + 3, -7.0)
        big[1:1 + 2 * n:2] = v
        return big[1:1 + 2 * n:2]
    if lay == 'i64':
        return np.ascontiguousarray(v).astype(np.int64)
    if lay == 'i64view':
        big = np.full(2 * n + 3, -7, dtype=np.int64)
        big[1:1 + 2 * n:2] = np.asarray(v).astype(np.int64)
        return big[1:1 + 2 * n:2]
    raise HarnessError(lay)


def present2(v, lay):
    v = np.asarray(v)
    if lay == 'C':
        return np.ascontiguousarray(v, dtype=float)
    if lay == 'F':
        return np.asfortranarray(np.array(v, dtype=float))
    if lay == 'view':
        big = np.full((2 * len(v) + 3, 4), -7.0)
        big[1:1 + 2 * len(v):2, 1:3] = v
        return big[1:1 + 2 * len(v):2, 1:3]
    if lay == 'i64':
        return np.ascontiguousarray(v).astype(np.int64)
    raise HarnessError(lay)


def integral(a):
    a = np.asarray(a, dtype=float)
    return bool(np.all(a == np.round(a))) and bool(np.all(np.abs(a) < 2 ** 40))


def gen_x(rng, n, want_int):
    pat = int(rng.integers(0, 6))
    if want_int and pat in (2, 4):
        pat = 1
    if pat == 5:
        # large offset, tiny relative span (timestamps, byte offsets): x[0] and x[-1] differ by ~1e-7..1e-12 relative
        off = float(int(10.0 ** rng.uniform(6, 12)))
        if rng.random() < 0.25:
            off = float(int(rng.uniform(1.6e12, 1.8e12)))         # epoch milliseconds
        x = off + np.cumsum(rng.integers(1, 5, n)).astype(float)
        return x, pat
    if pat == 0:
        x = np.arange(n, dtype=float) + float(rng.integers(0, 4))
    elif pat == 1:
        x = np.cumsum(rng.integers(1, 5, n)).astype(float)
    elif pat == 2:
        x = np.cumsum(rng.uniform(0.05, 3.0, n)) * 10.0 ** int(rng.integers(-3, 5))
    elif pat == 3:
        x = np.cumsum(rng.integers(1, 5, n)).astype(float) * 10.0 ** int(rng.integers(1, 5))
    else:
        x = rng.uniform(0, 1, n) * 10.0 ** int(rng.integers(-3, 6))      # unsorted abscissae
    return x, pat


def gen_case(rng, tier, shard, nshards):
    n = int(rng.integers(1, 5)) if rng.random() < 0.15 else int(rng.integers(1, 201))
    if rng.random() < 0.008:
        n = int(rng.integers(3000, 20000))        # long vectors: blocked / pairwise / parallel code paths only show there
        if rng.random() < 0.6:
            # ... at block boundaries m * 2^k - 1, + 0, + 1 (1024 .. 32768)
            n = int(rng.integers(1, 5)) * 2 ** int(rng.integers(10, 14)) + int(rng.integers(-1, 2))
    cls = pick(rng, CLASSES)
    mag = 10.0 ** rng.uniform(-3, 6)
    if rng.random() < 0.08:
        mag = 10.0 ** rng.uniform(-12, -3)      # small units (seconds at nanosecond resolution): every sum of squares is tiny
    want_int = cls in ('int', 'int-near')
    x, xpat = gen_x(rng, n, want_int)
    if cls == 'rand':
        y, yh = mag * rng.random(n), mag * rng.random(n)
    elif cls == 'prop':
        y = mag * rng.random(n)
        yh = np.abs(y * (1 + 0.1 * rng.normal(0, 1, n)))
    elif cls == 'equal':
        y = mag * rng.random(n)
        yh = y.copy()
    elif cls == 'near':
        y = mag * rng.random(n)
        yh = np.abs(y * (1 + 10.0 ** -rng.uniform(6, 15) * rng.normal(0, 1, n)))
    elif cls == 'zeros':
        y, yh = mag * rng.random(n), mag * rng.random(n)
        y[rng.random(n) < 0.3] = 0.0
        yh[rng.random(n) < 0.3] = 0.0
        if rng.random() < 0.3:
            y[-1] = 0.0
    elif cls == 'const':
        c = [0.0, 1.0, 5.0, 0.375, 1024.0, 300000.0, 0.3, 1e-3][int(rng.integers(0, 8))]
        y = np.full(n, c)
        yh = np.abs(c + (c if c else 1.0) * rng.normal(0, 0.2, n))
        if rng.random() < 0.15:
            yh = y.copy()
    elif cls == 'mixed':
        y, yh = mag * rng.normal(0, 1, n), mag * rng.normal(0, 1, n)
    elif cls == 'int':
        K = int(10 ** rng.uniform(0.3, 6))
        y, yh = rng.integers(0, K + 1, n).astype(float), rng.integers(0, K + 1, n).astype(float)
        if rng.random() < 0.15:
            yh = y.copy()
    elif cls == 'int-near':
        K = int(10 ** rng.uniform(0.3, 6))
        y = rng.integers(0, K + 1, n).astype(float)
        yh = np.maximum(y + rng.integers(-2, 3, n), 0).astype(float)
    else:   # 'line': y close to a straight line in x (R2 near 1), kept >= 0
        slope = rng.normal(0, 1) * mag / max(float(np.max(np.abs(x))), 1e-300)
        y = slope * x + rng.normal(0, 1, n) * mag * 10.0 ** -rng.uniform(0, 8)
        y = y - min(float(y.min()), 0.0)
        yh = np.abs(y + rng.normal(0, 1, n) * mag * 1e-3)
    ints = integral(y) and integral(yh)
    if tier == 'quick':
        pairs = CORE_PAIRS + [OTHER_PAIRS[shard % len(OTHER_PAIRS)]]
        playouts = ['C', PLAYOUTS[1 + shard % 3]]
        xlayouts = ['C', ['view', 'i64'][shard % 2]]
    else:
        pairs, playouts, xlayouts = ALL_PAIRS, PLAYOUTS, ['C', 'view', 'i64']
    ipairs = [p for p in pairs if p[0].startswith('i64') or p[1].startswith('i64')]
    fpairs = [p for p in pairs if p not in ipairs]
    if ints and ipairs:
        pair = pick(rng, ipairs) if rng.random() < 0.85 else pick(rng, fpairs)
    else:
        pair = pick(rng, fpairs) if rng.random() < 0.7 else ('C', 'C')
    ly, lyh = pair
    pl = pick(rng, playouts) if rng.random() < 0.6 else 'C'
    if pl == 'i64' and not (integral(x) and integral(y)):
        pl = 'C' if tier == 'quick' else 'F'
    lx = pick(rng, xlayouts) if rng.random() < 0.5 else 'C'
    if lx == 'i64' and not integral(x):
        lx = 'C' if tier == 'quick' else 'view'
    xs = max(float(np.max(np.abs(x))), 1e-300)
    coef = [float(rng.normal(0, 1) * mag), float(rng.normal(0, 1) * mag / xs)]
    if rng.random() < 0.2:
        coef = [float(rng.integers(-3, 4)), float(rng.integers(-3, 4))]
    eps = None
    if rng.random() < 0.3:
        eps = float(pick(rng, [1e-16, 1e-12, 1e-9, 1e-6]))
    return {'n': n, 'cls': cls, 'y': y, 'yh': yh, 'x': x, 'xpat': xpat, 'ly': ly, 'lyh': lyh, 'lx': lx, 'lp': pl,
            'coef': coef, 'eps': eps}


def cases(rng, tier, shard, nshards):
    total = META['quick_cases'] if tier == 'quick' else META['thorough_cases']
    for _ in range(shard_count(total, shard, nshards)):
        yield gen_case(rng, tier, shard, nshards)


# ------------------------------------------------------------------ driver

def _call(ctx, name, fn, *args):
    ok, res = install.guarded(ctx, f'complete:{name}', fn, *args)
    if ok:
        ctx.ok('complete')
    return ok, res


def run_case(ctx, mods, case):
    M, lf = mods['metrics'], mods['linear_fit']
    R2 = M.R2
    n = case['n']
    y = present1(case['y'], case['ly'])
    yh = present1(case['yh'], case['lyh'])
    nonneg = bool(np.min(y) >= 0 and np.min(yh) >= 0)
    ctx.h('class', case['cls'])
    ctx.h('vector_layouts', f"{case['ly']}-{case['lyh']}")

    # ---- metrics called directly
    for name in METRICS:
        if name in NEEDS_NONNEG and not nonneg:
            continue
        _call(ctx, f'metrics.{name}', getattr(M, name), y, yh)
    if n >= 3:
        _call(ctx, 'metrics.r2', M.r2, y, yh, R2.adjusted)
    if case['eps'] is not None and case['ly'] == 'C' and case['lyh'] == 'C':
        _call(ctx, 'metrics.smape', M.smape, y, yh, case['eps'])
        if nonneg:
            _call(ctx, 'metrics.rpd', M.rpd, y, yh, case['eps'])
            _call(ctx, 'metrics.rmspe', M.rmspe, y, yh, case['eps'])
    if not np.array_equal(y, yh):
        ctx.nontriv(case['y'], case['yh'], case['ly'], case['lyh'])

    # ---- linear-fit helpers on (x, y)
    x = present1(case['x'], case['lx'])
    pts = present2(np.column_stack((case['x'], case['y'])), case['lp'])
    ctx.h('points_layout', case['lp'])
    coefs = [tuple(case['coef'])]
    ok, cf = _call(ctx, 'linear_fit.linear_fit', lf.linear_fit, x, y)
    if ok:
        coefs.append(cf)
    ok, cfp = _call(ctx, 'linear_fit.linear_fit_points', lf.linear_fit_points, pts)
    if ok and n % 2:
        coefs[-1] = cfp
    for coef in coefs:
        for wname, (metric, has_eps, forwards) in WRAPPERS.items():
            _call(ctx, f'linear_fit.{wname}', getattr(lf, wname), x, y, coef)
            _call(ctx, f'linear_fit.{wname}_points', getattr(lf, wname + '_points'), pts, coef)
            if has_eps and forwards and case['eps'] is not None:
                _call(ctx, f'linear_fit.{wname}', getattr(lf, wname), x, y, coef, case['eps'])
                _call(ctx, f'linear_fit.{wname}_points', getattr(lf, wname + '_points'), pts, coef, case['eps'])
        _call(ctx, 'linear_fit.linear_transform', lf.linear_transform, x, coef)
        _call(ctx, 'linear_fit.linear_transform_points', lf.linear_transform_points, pts, coef)
        kinds = [R2.classic] + ([R2.adjusted] if n >= 3 else [])
        for kind in kinds:
            _call(ctx, 'linear_fit.linear_r2', lf.linear_r2, x, y, coef, kind)
            _call(ctx, 'linear_fit.linear_r2_points', lf.linear_r2_points, pts, coef, kind)
    # ---- history on ONE buffer: same storage (address, length), same coefficients, different contents / strides.
    # State keyed on the memory block instead of the values would hand back the projection of the previous contents.
    if n >= 4 and case['x'].dtype.kind == 'f':
        coef = coefs[0]
        buf = np.array(case['x'], dtype=float)              # contiguous float64 work buffer owned by the caller
        ybuf = np.array(case['y'], dtype=float)
        for step in range(3):
            if np.all(np.isfinite(buf)):
                _call(ctx, 'linear_fit.linear_transform', lf.linear_transform, buf, coef)
                _call(ctx, 'linear_fit.rmse', lf.rmse, buf, ybuf, coef)
                _call(ctx, 'linear_fit.linear_residuals', lf.linear_residuals, buf, ybuf, coef)
            buf *= 2.0                                       # the caller rescales its own array in place
            buf += 1.0
        big = np.array(np.concatenate((case['x'], case['x'][::-1] + 1.0)), dtype=float)
        half = len(big) // 2
        for view in (big[0:half], big[0:2 * half:2]):         # two views with the same start address and length
            _call(ctx, 'linear_fit.linear_transform', lf.linear_transform, view, coef)
        ctx.h('history', 'one buffer rescaled in place / two strided views of one block')
    _call(ctx, 'linear_fit.linear_fit_residuals', lf.linear_fit_residuals, x, y)
    _call(ctx, 'linear_fit.linear_fit_residuals_points', lf.linear_fit_residuals_points, pts)
    _call(ctx, 'linear_fit.linear_hv_residuals', lf.linear_hv_residuals, x, y)
    _call(ctx, 'linear_fit.linear_hv_residuals_points', lf.linear_hv_residuals_points, pts)
    for vertical in (False, True):
        _call(ctx, 'linear_fit.linear_fit_transform', lf.linear_fit_transform, x, y, vertical)
        _call(ctx, 'linear_fit.linear_fit_transform_points', lf.linear_fit_transform_points, pts, vertical)
    if n >= 3 and case['x'].dtype.kind == 'f' and n % 3 == 0:
        # a segment that starts and ends on one abscissa (the case the vertical option exists for): the y-on-x line is
        # degenerate there and the x-on-y line has to be chosen whenever its residuals are smaller
        xv = np.array(case['x'], dtype=float)
        xv[-1] = xv[0]
        if n % 2:
            xv[:] = xv[0]          # a cliff of the curve: every sample on one abscissa
        _call(ctx, 'linear_fit.linear_fit_transform', lf.linear_fit_transform, xv, y, True)
    if n >= 2:
        kinds = [R2.classic] + ([R2.adjusted] if n >= 3 else [])
        for kind in kinds:
            _call(ctx, 'linear_fit.r2', lf.r2, x, y, kind)
            _call(ctx, 'linear_fit.r2_points', lf.r2_points, pts, kind)
