"""C17 - geometric and ranking primitives equal their geometric definitions (DESIGN.md section 4, C17).

Postcondition monitors on
  linear_fit.shortest_distance_points / perpendicular_distance_points /
  perpendicular_distance_index / perpendicular_distance,
  knee_ranking.rect_overlap / rank / distances / distance_to_similarity,
  menger.menger_curvature, postprocessing.triangle_area.

Reference models are written in long double (np.longdouble, 64-bit mantissa) or in
``fractions`` (rectangles, collinearity) and never share code with the library.
Tolerances follow DESIGN section 3: reference-model rule (rtol 1e-9 + data-derived
absolute floor ``64*eps*(|coords|max + chord)`` for distances), same-primitive rule (exact,
NaN-aware) for ``perpendicular_distance_index`` / ``perpendicular_distance`` against the
saved original ``perpendicular_distance_points`` on the same slices, exact-arithmetic
rule (exactly 0 / exactly 1) on integer grids.
"""
import itertools
from fractions import Fraction

import numpy as np

from .. import gen, install, loops
from ..common import DISTANCES, EPS, ORDERS, distance, order, pick, shard_count
from ..ctx import HarnessError

LD = np.longdouble
RTOL = 1e-9

META = {
    'refill': True,      # point-set cases presented in a reused buffer are followed by a refill of that buffer (runner)
    'rule': ('cases = (a) point sets (12 curve families, random clouds, integer grids; C/F/strided-view/int64 '
             'layouts) x segment (a,b) in {curve chord, arbitrary off-curve, a == b, interior sub-chord with points '
             'beyond both ends, axis-parallel, integer, chord 1e-6..1e-11 of the extent}; x sub-ranges (l,r), l >= 0; (b) rectangles: integer '
             'corners 0..5 (random, identical, nested, touching, degenerate) and float rectangles; (c) triples: '
             'distinct integer triples in [-8,8]^2 (collinear ones included), consecutive curve points, nearly '
             'collinear float triples, close pairs at x ~2^20..2^40 far from the third point (Menger judged with the forward-error floor of the evaluated cross product, per argument order); (d) value vectors with ties for rank; (e) simplifier runs (rdp, rdp_fixed, '
             'both distances, and menger.knee) whose internal primitive calls are monitored and counted separately '
             '(@simplifier). distinct = digest(primitive, inputs); non-trivial = some distance > 0 / 0 < IoU < 1 / '
             'non-collinear triple / values not already in ascending order'),
    'require': {'shortest': 1500, 'perp': 4000, 'perp_index': 3000, 'perp_full': 1500,
                'iou': 1400, 'iou:symmetry': 1400, 'iou:value': 1200, 'iou:disjoint': 600, 'iou:identical': 120,
                'menger': 1400, 'menger:symmetry': 1400, 'menger:collinear': 3000,
                'rank': 500, 'euclid': 1500, 'similarity': 500, 'area': 1400, 'area:collinear': 280,
                'shortest@simplifier': 12000, 'perp@simplifier': 12000, 'menger@simplifier': 7500,
                'hist:clamp_branch': 100000, 'nontrivial': 20000},
    'scale': {'quick': 1, 'thorough': 20},
    'quick_cases': 16000, 'thorough_cases': 640000,
    'timeout': {'quick': 600, 'thorough': 3000},
    'assumptions': ['np.longdouble has a 64-bit mantissa on this platform (checked at start-up)',
                    'tolerant clauses cannot see errors below 64*eps*(largest coordinate difference to the first end point + chord length)',
                    'Menger curvature and the perpendicular distance are undefined for coincident points / a == b '
                    '(counted out-of-domain)',
                    'triangle_area is compared in absolute value (the statement does not fix an orientation sign)'],
}

STATE = {'via': ''}        # '' = direct call from run_case, '@simplifier' = reached through rdp / menger.knee


# ------------------------------------------------------------------ helpers

def ld(a):
    return np.asarray(a).astype(LD)


def _finite(*arrs):
    for a in arrs:
        a = np.asarray(a)
        if a.dtype.kind not in 'iuf':
            return False
        if a.dtype.kind == 'f' and not np.all(np.isfinite(a)):
            return False
    return True


def _is_points(p):
    return isinstance(p, np.ndarray) and p.ndim == 2 and p.shape[1] == 2 and p.shape[0] >= 1 and p.dtype.kind in 'iuf'


def _is_pt(a):
    a = np.asarray(a)
    return a.shape == (2,) and a.dtype.kind in 'iuf'


def _cmax(*arrs):
    return float(max(np.max(np.abs(ld(a))) for a in arrs))


def _dmax(p, a, b):
    """Largest coordinate DIFFERENCE to the segment's first end point: distances are translation invariant, and an
    implementation that forms the differences first (as the library does) has errors relative to them, not to the
    absolute coordinates - a tolerance in units of |coords|max would hide every cancellation at a large offset."""
    A = ld(a)
    return float(max(np.max(np.abs(ld(p) - A)), np.max(np.abs(ld(b) - A))))


def exact_equal(a, b):
    """Bit-for-bit value equality, NaN == NaN."""
    a = np.asarray(a, dtype=float)
    b = np.asarray(b, dtype=float)
    if a.shape != b.shape:
        return False
    return bool(np.all((a == b) | (np.isnan(a) & np.isnan(b))))


def layout_of(a):
    a = np.asarray(a)
    if a.flags['C_CONTIGUOUS']:
        lay = 'C'
    elif a.flags['F_CONTIGUOUS']:
        lay = 'F'
    else:
        lay = 'A'
    return f'{a.dtype.kind}{a.dtype.itemsize}{lay}'


def bind(names, args, kwargs):
    if len(args) > len(names):
        return None
    d = dict(zip(names, args))
    for k, v in kwargs.items():
        if k not in names or k in d:
            return None
        d[k] = v
    if any(n not in d for n in names):
        return None
    return [d[n] for n in names]


def lenclass(n):
    return str(n) if n <= 3 else ('4-9' if n < 10 else ('10-99' if n < 100 else '100+'))


# ------------------------------------------------------------------ reference models (long double)

def model_segment(p, a, b):
    """Distance of every row of p to the closed segment a-b: projection, clamp, residual."""
    P, A, B = ld(p), ld(a), ld(b)
    abx, aby = B[0] - A[0], B[1] - A[1]
    apx, apy = P[:, 0] - A[0], P[:, 1] - A[1]
    L2 = abx * abx + aby * aby
    if L2 == 0:
        return np.hypot(apx, apy), None, LD(0)
    t = (apx * abx + apy * aby) / L2
    tc = np.clip(t, LD(0), LD(1))
    return np.hypot(apx - tc * abx, apy - tc * aby), t, np.sqrt(L2)


def model_line(p, a, b):
    """Distance of every row of p to the infinite line through a and b (a != b): unclamped projection."""
    P, A, B = ld(p), ld(a), ld(b)
    abx, aby = B[0] - A[0], B[1] - A[1]
    apx, apy = P[:, 0] - A[0], P[:, 1] - A[1]
    L2 = abx * abx + aby * aby
    t = (apx * abx + apy * aby) / L2
    return np.hypot(apx - t * abx, apy - t * aby), np.sqrt(L2)


def frac_pt(a):
    a = np.asarray(a)
    return [Fraction(int(v)) if a.dtype.kind in 'iu' else Fraction(float(v)) for v in a]


def cross_exact(f, g, h):
    f, g, h = frac_pt(f), frac_pt(g), frac_pt(h)
    return (g[0] - f[0]) * (h[1] - f[1]) - (g[1] - f[1]) * (h[0] - f[0])


def small_integers(*pts):
    for p in pts:
        p = np.asarray(p, dtype=float)
        if not (np.all(p == np.round(p)) and np.all(np.abs(p) < 2 ** 20)):
            return False
    return True


# ------------------------------------------------------------------ monitors

def post_shortest(ctx, original, args, kwargs, result):
    mon = 'shortest' + STATE['via']
    b_ = bind(('p', 'a', 'b'), args, kwargs)
    if b_ is None:
        return ctx.ood(mon, 'unbound')
    p, a, b = b_
    if not (_is_points(p) and _is_pt(a) and _is_pt(b)):
        return ctx.ood(mon, 'shape')
    if not _finite(p, a, b):
        return ctx.ood(mon, 'nonfinite')
    a, b = np.asarray(a), np.asarray(b)
    cm = _cmax(p, a, b)
    if cm > 1e150:
        return ctx.ood(mon, 'magnitude')
    ref, t, chord = model_segment(p, a, b)
    degenerate = t is None
    key = 'dist:shortest:a==b' if degenerate else 'dist:shortest'
    res = np.asarray(result)
    if res.shape != (len(p),) or res.dtype.kind != 'f':
        return ctx.violation(mon, key, f'result shape/dtype {res.shape}/{res.dtype} for {len(p)} points',
                             p=p, a=a, b=b, result=result)
    tol = 64 * EPS * (_dmax(p, a, b) + float(chord)) + RTOL * ref
    err = np.abs(ld(res) - ref)
    bad = ~(err <= tol)       # NaN-safe
    if not degenerate:
        ctx.h('clamp_branch', 'before-a', int(np.sum(t < 0)))
        ctx.h('clamp_branch', 'beyond-b', int(np.sum(t > 1)))
        ctx.h('clamp_branch', 'inside', int(np.sum((t >= 0) & (t <= 1))))
        if a[0] == b[0] or a[1] == b[1]:
            ctx.h('segment_class', 'axis-parallel' + STATE['via'])
        else:
            ctx.h('segment_class', 'general' + STATE['via'])
    else:
        ctx.h('segment_class', 'a==b' + STATE['via'])
    ctx.h('dist_x_layout', f'shortest/{layout_of(p)}' + STATE['via'])
    if np.any(bad):
        i = int(np.argmax(np.where(bad, np.where(np.isnan(err), np.inf, err / np.maximum(tol, LD(1e-300))), 0)))
        return ctx.violation(mon, key,
                             f'point {i}: got {res[i]!r}, distance to the closed segment is {float(ref[i])!r} '
                             f'(tol {float(tol[i]):.3g})', p=p, a=a, b=b, index=i, got=float(res[i]),
                             expected=float(ref[i]))
    ctx.ok(mon)
    denom = np.maximum(tol, LD(1e-300))
    ctx.mx('slack:shortest', float(np.max(err / denom)))
    if float(np.max(ref)) > 0:
        ctx.nontriv('shortest', p, a, b)
    ctx.sample({'primitive': 'shortest_distance_points', 'p_head': np.asarray(p)[:4], 'a': a, 'b': b,
                'result_head': res[:4], 'reference_head': np.asarray(ref[:4], dtype=float)}, cap=1)


def post_perp_points(ctx, original, args, kwargs, result):
    mon = 'perp' + STATE['via']
    b_ = bind(('pt', 'start', 'end'), args, kwargs)
    if b_ is None:
        return ctx.ood(mon, 'unbound')
    p, a, b = b_
    if not (_is_points(p) and _is_pt(a) and _is_pt(b)):
        return ctx.ood(mon, 'shape')
    if not _finite(p, a, b):
        return ctx.ood(mon, 'nonfinite')
    a, b = np.asarray(a), np.asarray(b)
    if np.all(ld(a) == ld(b)):
        return ctx.ood(mon, 'a==b (line undefined)')
    cm = _cmax(p, a, b)
    if cm > 1e150:
        return ctx.ood(mon, 'magnitude')
    ref, chord = model_line(p, a, b)
    res = np.asarray(result)
    if res.shape != (len(p),) or res.dtype.kind != 'f':
        return ctx.violation(mon, 'dist:perp', f'result shape/dtype {res.shape}/{res.dtype} for {len(p)} points',
                             p=p, a=a, b=b, result=result)
    tol = 64 * EPS * (_dmax(p, a, b) + float(chord)) + RTOL * ref
    err = np.abs(ld(res) - ref)
    bad = ~(err <= tol)
    ctx.h('dist_x_layout', f'perp/{layout_of(p)}' + STATE['via'])
    if np.any(bad):
        i = int(np.argmax(bad))
        return ctx.violation(mon, 'dist:perp',
                             f'point {i}: got {res[i]!r}, distance to the line is {float(ref[i])!r} '
                             f'(tol {float(tol[i]):.3g})', p=p, a=a, b=b, index=i, got=float(res[i]),
                             expected=float(ref[i]))
    ctx.ok(mon)
    ctx.mx('slack:perp', float(np.max(err / np.maximum(tol, LD(1e-300)))))
    if float(np.max(ref)) > 0:
        ctx.nontriv('perp', p, a, b)
    ctx.sample({'primitive': 'perpendicular_distance_points', 'p_head': np.asarray(p)[:4], 'a': a, 'b': b,
                'result_head': res[:4], 'reference_head': np.asarray(ref[:4], dtype=float)}, cap=2)


def _line_tolerant(ctx, result, p, a, b, what):
    """Fallback when a sub-range result is not bit-identical to the saved primitive (e.g. a re-implementation):
    accept it if it equals the distances to the line through a and b under the reference-model rule."""
    if np.all(ld(a) == ld(b)):
        return False
    res = np.asarray(result)
    if res.shape != (len(p),) or res.dtype.kind != 'f':
        return False
    ref, chord = model_line(p, a, b)
    tol = 64 * EPS * (_dmax(p, a, b) + float(chord)) + RTOL * ref
    ok = bool(np.all(np.abs(ld(res) - ref) <= tol))
    if ok:
        ctx.h('tolerant_fallback', what)
    return ok


def post_perp_index(ctx, original, args, kwargs, result):
    mon = 'perp_index'
    b_ = bind(('points', 'left', 'right'), args, kwargs)
    if b_ is None:
        return ctx.ood(mon, 'unbound')
    P, l, r = b_
    if not _is_points(P) or not _finite(P):
        return ctx.ood(mon, 'shape')
    if not (isinstance(l, (int, np.integer)) and isinstance(r, (int, np.integer))) or not (0 <= l <= r < len(P)):
        return ctx.ood(mon, 'index range')
    l, r = int(l), int(r)
    # same-primitive rule: the saved original on exactly that sub-range
    exp = install.orig('linear_fit', 'perpendicular_distance_points')(P[l:r + 1], P[l], P[r])
    ctx.h('perp_index_left', 'left=0' if l == 0 else 'left>0')
    if not exact_equal(result, exp) and not _line_tolerant(ctx, result, P[l:r + 1], P[l], P[r], 'perp_index'):
        res = np.asarray(result, dtype=float)
        e = np.asarray(exp, dtype=float)
        return ctx.violation(mon, 'dist:perp_index',
                             f'perpendicular_distance_index(P,{l},{r}) != perpendicular_distance_points(P[{l}:{r + 1}],'
                             f'P[{l}],P[{r}]): got {res[:5].tolist()} expected {e[:5].tolist()}',
                             points=P, left=l, right=r, got=res, expected=e)
    ctx.ok(mon)
    if r - l >= 2 and l > 0:
        ctx.nontriv('perp_index', P, l, r)


def post_perp_full(ctx, original, args, kwargs, result):
    mon = 'perp_full'
    b_ = bind(('points',), args, kwargs)
    if b_ is None:
        return ctx.ood(mon, 'unbound')
    P = b_[0]
    if not _is_points(P) or not _finite(P):
        return ctx.ood(mon, 'shape')
    exp = install.orig('linear_fit', 'perpendicular_distance_points')(P, P[0], P[-1])
    if not exact_equal(result, exp) and not _line_tolerant(ctx, result, P, P[0], P[-1], 'perp_full'):
        return ctx.violation(mon, 'dist:perp_full',
                             'perpendicular_distance(P) != perpendicular_distance_points(P, P[0], P[-1])',
                             points=P, got=np.asarray(result, dtype=float), expected=np.asarray(exp, dtype=float))
    ctx.ok(mon)


def post_rect_overlap(ctx, original, args, kwargs, result):
    mon = 'iou'
    b_ = bind(('amin', 'amax', 'bmin', 'bmax'), args, kwargs)
    if b_ is None:
        return ctx.ood(mon, 'unbound')
    if not all(_is_pt(v) for v in b_) or not _finite(*b_):
        return ctx.ood(mon, 'shape')
    amin, amax, bmin, bmax = [np.asarray(v) for v in b_]
    A0, A1, B0, B1 = frac_pt(amin), frac_pt(amax), frac_pt(bmin), frac_pt(bmax)
    if not (A0[0] <= A1[0] and A0[1] <= A1[1] and B0[0] <= B1[0] and B0[1] <= B1[1]):
        return ctx.ood(mon, 'corners not ordered')
    if _cmax(amin, amax, bmin, bmax) > 1e150:
        return ctx.ood(mon, 'magnitude')
    w = {'amin': amin, 'amax': amax, 'bmin': bmin, 'bmax': bmax}
    try:
        res = float(result)
    except Exception:
        return ctx.violation(mon, 'iou:value', f'result is not a number: {result!r}', **w)
    ix = max(Fraction(0), min(A1[0], B1[0]) - max(A0[0], B0[0]))
    iy = max(Fraction(0), min(A1[1], B1[1]) - max(A0[1], B0[1]))
    inter = ix * iy
    areaA = (A1[0] - A0[0]) * (A1[1] - A0[1])
    areaB = (B1[0] - B0[0]) * (B1[1] - B0[1])
    union = areaA + areaB - inter
    identical = (A0 == B0 and A1 == B1)
    cls = ('identical' if identical and areaA > 0 else
           'degenerate' if areaA == 0 or areaB == 0 else
           'disjoint' if ix == 0 and iy == 0 else
           'touching' if inter == 0 else
           'nested' if inter == areaA or inter == areaB else 'partial')
    ctx.h('rect_class', cls)
    good = True
    # range
    good &= ctx.check(0.0 <= res <= 1.0 + 4 * EPS, mon, 'iou:range', f'rect_overlap = {res!r} outside [0,1]', got=res, **w)
    # symmetry under swapping A and B
    swapped = float(original(bmin, bmax, amin, amax))
    good &= ctx.check(abs(swapped - res) <= 4 * EPS * max(abs(res), abs(swapped)) or (swapped != swapped and res != res),
                      'iou:symmetry', 'iou:symmetry', f'rect_overlap(A,B) = {res!r} but rect_overlap(B,A) = {swapped!r}',
                      got=res, swapped=swapped, **w)
    if union > 0:
        ref = inter / union
        reff = float(ref)
        err = abs(Fraction(res) - ref) if res == res and abs(res) != float('inf') else None
        tol = Fraction(RTOL) * ref + Fraction(16 * EPS)
        good &= ctx.check(err is not None and err <= tol, 'iou:value', 'iou:value',
                          f'rect_overlap = {res!r}, intersection/union = {reff!r}', got=res, expected=reff, **w)
        if err is not None:
            ctx.mx('slack:iou', float(err / tol))
        if inter == 0:
            good &= ctx.check(res == 0.0, 'iou:disjoint', 'iou:disjoint',
                              f'rect_overlap = {res!r} on rectangles with empty intersection', got=res, **w)
        if identical and areaA > 0:
            good &= ctx.check(abs(res - 1.0) <= 4 * EPS, 'iou:identical', 'iou:identical',
                              f'rect_overlap = {res!r} on identical non-degenerate rectangles', got=res, **w)
        if 0 < ref < 1:
            ctx.nontriv('iou', amin, amax, bmin, bmax)
        if good:
            ctx.sample({'primitive': 'rect_overlap', 'amin': amin, 'amax': amax, 'bmin': bmin, 'bmax': bmax,
                        'result': res, 'reference': reff, 'class': cls}, cap=3)
    else:
        ctx.ood('iou:value', 'union has zero area')


def _menger_floor(f, g, h):
    """Forward error of the library's cross product 2|(x2-x1)(y3-y2) - (y2-y1)(x3-x2)| in THIS argument order, over abc:
    64*eps*(|A*B| + |C*D|)/(abc).  Never above the order-free 128*eps/min(side) and far below it for thin, flat triples."""
    F, G, H = ld(f), ld(g), ld(h)
    A, B, C, D = G[0] - F[0], H[1] - G[1], G[1] - F[1], H[0] - G[0]
    a = np.hypot(G[0] - F[0], G[1] - F[1])
    b = np.hypot(H[0] - G[0], H[1] - G[1])
    c = np.hypot(F[0] - H[0], F[1] - H[1])
    return 64 * EPS * (abs(A * B) + abs(C * D)) / (a * b * c) + LD(1e-300)


def _menger_ref(f, g, h):
    F, G, H = ld(f), ld(g), ld(h)
    cr = (G[0] - F[0]) * (H[1] - F[1]) - (G[1] - F[1]) * (H[0] - F[0])
    a = np.hypot(G[0] - F[0], G[1] - F[1])
    b = np.hypot(H[0] - G[0], H[1] - G[1])
    c = np.hypot(F[0] - H[0], F[1] - H[1])
    return 2 * abs(cr) / (a * b * c), min(a, b, c)


def post_menger(ctx, original, args, kwargs, result):
    mon = 'menger' + STATE['via']
    b_ = bind(('f', 'g', 'h'), args, kwargs)
    if b_ is None:
        return ctx.ood(mon, 'unbound')
    try:
        f, g, h = [np.asarray(v) for v in b_]
    except Exception:
        return ctx.ood(mon, 'shape')
    if not (_is_pt(f) and _is_pt(g) and _is_pt(h)) or not _finite(f, g, h):
        return ctx.ood(mon, 'shape')
    F, G, H = ld(f), ld(g), ld(h)
    if np.all(F == G) or np.all(G == H) or np.all(F == H):
        return ctx.ood(mon, 'coincident points (circumradius undefined)')
    cm = _cmax(f, g, h)
    if cm > 1e50 or cm < 1e-50:
        return ctx.ood(mon, 'magnitude')
    w = {'f': f, 'g': g, 'h': h}
    try:
        res = float(result)
    except Exception:
        return ctx.violation(mon, 'menger:formula', f'result is not a number: {result!r}', **w)
    ref, smin = _menger_ref(f, g, h)
    # |dx*dy| <= side_i*side_j  =>  abs error <= few*eps*2*max(ab,bc,ca)/(abc); the order-specific bound is never larger
    floor = min(128 * EPS / smin, _menger_floor(f, g, h))
    tol = floor + RTOL * ref
    err = abs(LD(res) - ref)
    cexact = cross_exact(f, g, h)
    collinear = (cexact == 0)
    ctx.h('triple_class', ('collinear' if collinear else 'triangle') + ('/int' if small_integers(f, g, h) else '/float')
          + STATE['via'])
    good = ctx.check(bool(err <= tol), mon, 'menger:formula',
                     f'menger_curvature = {res!r}, reciprocal circumradius 2|cross|/(abc) = {float(ref)!r}',
                     got=res, expected=float(ref), **w)
    if good:
        ctx.mx('slack:menger', float(err / tol))
    if collinear:
        if small_integers(f, g, h):
            ctx.check(res == 0.0, 'menger:collinear', 'menger:collinear',
                      f'menger_curvature = {res!r} on a collinear integer triple (must be exactly 0)', got=res, **w)
        else:
            ctx.check(abs(res) <= float(floor), 'menger:collinear', 'menger:collinear',
                      f'menger_curvature = {res!r} on a collinear triple', got=res, **w)
    # symmetry under the 6 argument orders
    if not STATE['via'] or ctx.counters.get('menger:symmetry@simplifier', 0) < 400:
        vals = []
        for q in itertools.permutations((b_[0], b_[1], b_[2])):
            try:
                vals.append(float(original(*q)))
            except ZeroDivisionError:
                vals.append(float('nan'))
        vals = np.array(vals)
        spread = float(np.max(np.abs(vals - res))) if np.all(np.isfinite(vals)) else float('inf')
        tol_sym = min(128 * EPS / smin, max(_menger_floor(*q) for q in itertools.permutations((f, g, h)))) + RTOL * ref
        ctx.check(spread <= 2 * float(tol_sym), 'menger:symmetry' + STATE['via'], 'menger:symmetry',
                  f'menger_curvature depends on the argument order: values {vals.tolist()}', got=res,
                  values=vals, **w)
        ctx.mx('slack:menger_symmetry', spread / (2 * float(tol_sym)))
    if not collinear:
        ctx.nontriv('menger', f, g, h)
        if good:
            ctx.sample({'primitive': 'menger_curvature', 'f': f, 'g': g, 'h': h, 'result': res,
                        'reference': float(ref)}, cap=4)


def post_rank(ctx, original, args, kwargs, result):
    mon = 'rank'
    b_ = bind(('array',), args, kwargs)
    if b_ is None:
        return ctx.ood(mon, 'unbound')
    v = b_[0]
    if not (isinstance(v, np.ndarray) and v.ndim == 1 and v.dtype.kind in 'iuf' and len(v) >= 1):
        return ctx.ood(mon, 'shape')
    if v.dtype.kind == 'f' and np.any(np.isnan(v)):
        return ctx.ood(mon, 'nan')
    n = len(v)
    res = np.asarray(result)
    ties = n - len(np.unique(v))
    ctx.h('rank_input', f'n={lenclass(n)}/' + ('ties' if ties else 'distinct'))
    if res.shape != (n,) or res.dtype.kind not in 'iu' or not np.array_equal(np.sort(res), np.arange(n)):
        return ctx.violation(mon, 'rank:perm', f'rank is not a permutation of 0..{n - 1}: {res.tolist()[:30]}',
                             values=v, got=res)
    inv = np.empty(n, dtype=np.int64)
    inv[res] = np.arange(n)
    by_rank = v[inv]
    if not np.all(by_rank[1:] >= by_rank[:-1]):
        i = int(np.argmax(by_rank[1:] < by_rank[:-1]))
        return ctx.violation(mon, 'rank:order',
                             f'rank does not order the values: rank {i} holds {by_rank[i]!r} > rank {i + 1} holding '
                             f'{by_rank[i + 1]!r}', values=v, got=res)
    ctx.ok(mon)
    if n >= 3 and not np.all(v[1:] >= v[:-1]):
        ctx.nontriv('rank', v)
        ctx.sample({'primitive': 'rank', 'values': v[:12], 'ranks': res[:12]}, cap=5)


def post_similarity(ctx, original, args, kwargs, result):
    mon = 'similarity'
    b_ = bind(('array',), args, kwargs)
    if b_ is None:
        return ctx.ood(mon, 'unbound')
    v = b_[0]
    if not (isinstance(v, np.ndarray) and v.ndim == 1 and v.dtype.kind in 'iuf' and len(v) >= 1) or not _finite(v):
        return ctx.ood(mon, 'shape')
    res = np.asarray(result)
    V = ld(v)
    ref = np.max(V) - V
    if res.shape != v.shape:
        return ctx.violation(mon, 'similarity:def', f'shape {res.shape} != {v.shape}', values=v, got=res)
    tol = 2 * EPS * np.maximum(np.abs(ref), LD(0))
    err = np.abs(ld(res) - ref)
    ok = bool(np.all(err <= tol)) and bool(np.all(res >= 0)) and bool(np.min(res) == 0)
    ctx.check(ok, mon, 'similarity:def', 'distance_to_similarity != max(array) - array', values=v,
              got=np.asarray(res, dtype=float), expected=np.asarray(ref, dtype=float))


def post_distances(ctx, original, args, kwargs, result):
    mon = 'euclid'
    b_ = bind(('point', 'points'), args, kwargs)
    if b_ is None:
        return ctx.ood(mon, 'unbound')
    q, P = b_
    if not (_is_points(P) and _is_pt(q)) or not _finite(P, q):
        return ctx.ood(mon, 'shape')
    cm = _cmax(P, q)
    if cm > 1e150:
        return ctx.ood(mon, 'magnitude')
    PP, Q = ld(P), ld(q)
    ref = np.hypot(PP[:, 0] - Q[0], PP[:, 1] - Q[1])
    res = np.asarray(result)
    if res.shape != (len(P),):
        return ctx.violation(mon, 'dist:euclid', f'shape {res.shape} for {len(P)} points', point=q, points=P)
    tol = 64 * EPS * cm + RTOL * ref
    err = np.abs(ld(res) - ref)
    bad = ~(err <= tol)
    if np.any(bad):
        i = int(np.argmax(bad))
        return ctx.violation(mon, 'dist:euclid', f'point {i}: got {res[i]!r}, Euclidean distance {float(ref[i])!r}',
                             point=q, points=P, index=i, got=float(res[i]), expected=float(ref[i]))
    ctx.ok(mon)
    ctx.mx('slack:euclid', float(np.max(err / np.maximum(tol, LD(1e-300)))))


def post_triangle_area(ctx, original, args, kwargs, result):
    mon = 'area'
    b_ = bind(('p',), args, kwargs)
    if b_ is None:
        return ctx.ood(mon, 'unbound')
    try:
        p = np.asarray(b_[0])
    except Exception:
        return ctx.ood(mon, 'shape')
    if p.shape != (3, 2) or p.dtype.kind not in 'iuf' or not _finite(p):
        return ctx.ood(mon, 'shape')
    cm = _cmax(p)
    if cm > 1e150:
        return ctx.ood(mon, 'magnitude')
    P = ld(p)
    cr = (P[1, 0] - P[0, 0]) * (P[2, 1] - P[0, 1]) - (P[1, 1] - P[0, 1]) * (P[2, 0] - P[0, 0])
    ref = abs(cr) / 2
    # the shoelace form cancels terms of size |x_i|*|y_j - y_k|
    floor = 64 * EPS * 0.5 * (abs(P[0, 0]) * abs(P[1, 1] - P[2, 1]) + abs(P[1, 0]) * abs(P[2, 1] - P[0, 1])
                              + abs(P[2, 0]) * abs(P[0, 1] - P[1, 1]))
    tol = floor + RTOL * ref
    res = float(result)
    err = abs(abs(LD(res)) - ref)
    good = ctx.check(bool(err <= tol), mon, 'area:triangle',
                     f'|triangle_area| = {abs(res)!r}, |cross|/2 = {float(ref)!r}', p=p, got=res, expected=float(ref))
    if good and tol > 0:
        ctx.mx('slack:area', float(err / tol))
    if small_integers(p) and cross_exact(p[0], p[1], p[2]) == 0:
        ctx.check(res == 0.0, 'area:collinear', 'area:collinear',
                  f'triangle_area = {res!r} on a collinear integer triple', p=p, got=res)


def refill_ok(case):
    return case.get('kind') in ('dist', 'simplifier') and case.get('src') != 'large-int64'


def setup(ctx, mods):
    if np.finfo(LD).eps > 1e-18:
        raise HarnessError('np.longdouble is not an extended-precision type on this platform')
    install.monitor(ctx, 'linear_fit', 'shortest_distance_points', post_shortest)
    install.monitor(ctx, 'linear_fit', 'perpendicular_distance_points', post_perp_points)
    install.monitor(ctx, 'linear_fit', 'perpendicular_distance_index', post_perp_index)
    install.monitor(ctx, 'linear_fit', 'perpendicular_distance', post_perp_full)
    install.monitor(ctx, 'knee_ranking', 'rect_overlap', post_rect_overlap)
    install.monitor(ctx, 'knee_ranking', 'rank', post_rank)
    install.monitor(ctx, 'knee_ranking', 'distance_to_similarity', post_similarity)
    install.monitor(ctx, 'knee_ranking', 'distances', post_distances)
    install.monitor(ctx, 'menger', 'menger_curvature', post_menger)
    install.monitor(ctx, 'postprocessing', 'triangle_area', post_triangle_area)
    return {'loops': loops.standard(ctx, mods)}


# ------------------------------------------------------------------ generators

CURVES = [f for f in gen.FAMILIES if f != 'trace']
KINDS = ['dist', 'rect', 'triple', 'rank', 'simplifier']
KIND_P = [0.30, 0.27, 0.27, 0.10, 0.06]


def _gen_dist(rng, tier):
    r = rng.random()
    if r < 0.004:
        pts, src = gen.long_spiky(rng, 4200, 7000), 'long-spiky'      # long point sets: size-dependent code paths
    elif r < 0.6:
        nmax = 60 if tier == 'quick' or rng.random() < 0.9 else 600
        pts, meta = gen.curve(rng, family=pick(rng, CURVES), nmax=nmax, nmin=2)
        src = meta['family']
    elif r < 0.8:
        n = int(rng.integers(1, 40))
        pts = rng.normal(0, 1, (n, 2)) * 10.0 ** rng.integers(-3, 7, 2) + rng.normal(0, 1, 2) * 10.0 ** int(rng.integers(-3, 7))
        src = 'cloud'
    else:
        n = int(rng.integers(1, 30))
        pts = rng.integers(-8, 9, (n, 2)).astype(float)
        src = 'intgrid'
    if rng.random() < 0.04:
        # integral coordinates of magnitude 1e9..1e10 held in int64 (differences exact, products of two differences not)
        pts = gen.large_int_curve(rng, nmax=40)
        n = len(pts)
        seg = 'chord' if (n < 5 or rng.random() < 0.5) else 'beyond'
        if seg == 'chord':
            a, b = pts[0].copy(), pts[-1].copy()
        else:
            i = int(rng.integers(1, n - 2))
            j = int(rng.integers(i + 1, n - 1))
            a, b = pts[i].copy(), pts[j].copy()
        return {'kind': 'dist', 'points': np.ascontiguousarray(pts), 'a': a, 'b': b, 'seg': seg, 'src': 'large-int64',
                'layout': 'i64', 'ab_layout': 'i64', 'left': 0, 'right': n - 1}
    n = len(pts)
    lo, hi = pts.min(axis=0), pts.max(axis=0)
    span = np.where(hi > lo, hi - lo, 1.0)
    seg = pick(rng, ['chord', 'off', 'a==b', 'beyond', 'axis', 'int', 'tiny'])
    if seg == 'chord' or (seg == 'beyond' and n < 4):
        seg = 'chord'
        a, b = pts[0].copy(), pts[-1].copy()
    elif seg == 'off':
        a = lo + span * rng.uniform(-0.5, 1.5, 2)
        b = lo + span * rng.uniform(-0.5, 1.5, 2)
    elif seg == 'a==b':
        a = pts[int(rng.integers(0, n))].copy() if rng.random() < 0.5 else lo + span * rng.uniform(-0.5, 1.5, 2)
        b = a.copy()
    elif seg == 'beyond':
        i = int(rng.integers(1, n - 2))            # 1 <= i < j <= n-2: points lie beyond both ends
        j = int(rng.integers(i + 1, n - 1))
        a, b = pts[i].copy(), pts[j].copy()
        if rng.random() < 0.3:
            a, b = b, a
    elif seg == 'tiny':
        a = pts[int(rng.integers(0, n))].copy()
        b = a + span * rng.normal(0, 1, 2) * 10.0 ** -int(rng.integers(6, 12))     # chord << coordinates
    elif seg == 'axis':
        a = lo + span * rng.uniform(-0.2, 1.2, 2)
        b = lo + span * rng.uniform(-0.2, 1.2, 2)
        k = int(rng.integers(0, 2))
        b[k] = a[k]                      # horizontal or vertical segment: one coordinate shared, a != b
    else:
        a = np.round(lo + span * rng.uniform(-0.5, 1.5, 2))
        b = np.round(lo + span * rng.uniform(-0.5, 1.5, 2))
    l = int(rng.integers(0, n)) if rng.random() < 0.7 else 0
    rr = int(rng.integers(l, n))
    lay = gen.pick_layout(rng, pts, p_default=0.5)
    ilay = 'i64' if (gen.is_integral(a) and gen.is_integral(b) and rng.random() < 0.5) else 'C'
    return {'kind': 'dist', 'points': np.ascontiguousarray(pts), 'a': a, 'b': b, 'seg': seg, 'src': src,
            'layout': lay, 'ab_layout': ilay, 'left': l, 'right': rr}


def _gen_rect(rng):
    cls = pick(rng, ['random', 'random', 'random', 'identical', 'nested', 'touching', 'degenerate', 'float', 'float-nested'])
    if cls == 'float' or cls == 'float-nested':
        s = 10.0 ** int(rng.integers(-3, 5))
        p1, p2 = rng.uniform(0, 10, 2) * s, rng.uniform(0, 10, 2) * s
        if cls == 'float':
            q1, q2 = rng.uniform(0, 10, 2) * s, rng.uniform(0, 10, 2) * s
        else:
            lo, hi = np.minimum(p1, p2), np.maximum(p1, p2)
            q1 = lo + (hi - lo) * rng.uniform(0, 1, 2)
            q2 = lo + (hi - lo) * rng.uniform(0, 1, 2)
        dtype = 'f8'
    else:
        p1, p2 = rng.integers(0, 6, 2), rng.integers(0, 6, 2)
        if cls == 'identical':
            q1, q2 = p2.copy(), p1.copy()
        elif cls == 'nested':
            lo, hi = np.minimum(p1, p2), np.maximum(p1, p2)
            q1 = np.array([rng.integers(lo[0], hi[0] + 1), rng.integers(lo[1], hi[1] + 1)])
            q2 = np.array([rng.integers(lo[0], hi[0] + 1), rng.integers(lo[1], hi[1] + 1)])
        elif cls == 'touching':
            lo, hi = np.minimum(p1, p2), np.maximum(p1, p2)
            q1 = np.array([hi[0], rng.integers(0, 6)])
            q2 = np.array([rng.integers(hi[0], 6), rng.integers(0, 6)])
        elif cls == 'degenerate':
            q1, q2 = rng.integers(0, 6, 2), rng.integers(0, 6, 2)
            k = int(rng.integers(0, 2))
            q2[k] = q1[k]
            if rng.random() < 0.3:
                p1, p2 = q1.copy(), q2.copy()
        else:
            # random: mostly non-degenerate pairs so that partial overlaps and truly disjoint pairs are common
            for _ in range(12):
                p1, p2 = rng.integers(0, 6, 2), rng.integers(0, 6, 2)
                q1, q2 = rng.integers(0, 6, 2), rng.integers(0, 6, 2)
                if np.all(p1 != p2) and np.all(q1 != q2):
                    break
        dtype = 'i8' if rng.random() < 0.5 else 'f8'
        if rng.random() < 0.12:
            # the same lattice configurations in bytes x nanoseconds: sides of several 1e9, areas beyond 2**63
            sc = np.array([float(rng.integers(2, 9)) * 1e9, float(rng.integers(2, 9)) * 1e9])
            p1, p2, q1, q2 = [np.asarray(v, dtype=float) * sc for v in (p1, p2, q1, q2)]
            cls, dtype = cls + ':large-int64', 'i8'
    return {'kind': 'rect', 'cls': cls, 'dtype': dtype, 'p1': np.asarray(p1, dtype=float), 'p2': np.asarray(p2, dtype=float),
            'q1': np.asarray(q1, dtype=float), 'q2': np.asarray(q2, dtype=float)}


def _gen_triple(rng):
    cls = pick(rng, ['int', 'int', 'int-collinear', 'curve', 'float', 'float-near-collinear', 'close-pair'])
    if cls == 'close-pair':
        # two samples less than a unit apart at a large abscissa (byte offsets, time stamps) and a third one far away, all
        # close to the x axis: one side is ~1e-9 of the other two, so any side that is not formed as the difference of its own
        # two end points (derived from the other sides, from squared norms, ...) loses half of its digits
        base = float(2 ** int(rng.integers(20, 41))) + float(rng.uniform(-0.5, 0.5))
        a = np.array([base + float(rng.uniform(-1, 1)), float(rng.uniform(0, 2))])
        b = np.array([base + float(rng.uniform(-1, 1)), float(rng.uniform(0, 2))])
        c = np.array([float(rng.uniform(-3, 3)), float(rng.uniform(0, 100))])
        t = np.array([a, b, c])[rng.permutation(3)]
        return {'kind': 'triple', 'cls': cls, 'dtype': 'f8', 'form': pick(rng, ['rows', 'rows', 'lists']),
                'triple': np.ascontiguousarray(t, dtype=float)}
    if cls == 'int':
        while True:
            t = rng.integers(-8, 9, (3, 2))
            if len({tuple(r) for r in t.tolist()}) == 3:
                break
        t = t.astype(float)
    elif cls == 'int-collinear':
        f = rng.integers(-4, 5, 2)
        while True:
            d = rng.integers(-2, 3, 2)
            if d.any():
                break
        ks = rng.choice(np.array([-2, -1, 1, 2]), size=2, replace=False)
        t = np.array([f, f + ks[0] * d, f + ks[1] * d], dtype=float)
        t = t[rng.permutation(3)]
    elif cls == 'curve':
        pts, _ = gen.curve(rng, family=pick(rng, CURVES), nmax=40, nmin=3)
        i = int(rng.integers(1, len(pts) - 1))
        t = pts[[i, i - 1, i + 1]].copy()      # the order menger.knee uses
    elif cls == 'float':
        t = rng.normal(0, 1, (3, 2)) * 10.0 ** int(rng.integers(-3, 5)) + rng.normal(0, 1, 2) * 10.0 ** int(rng.integers(-3, 5))
    else:
        f = rng.normal(0, 1, 2) * 10.0 ** int(rng.integers(-2, 4))
        d = rng.normal(0, 1, 2) * 10.0 ** int(rng.integers(-2, 4))
        k1, k2 = rng.uniform(0.2, 3), -rng.uniform(0.2, 3)
        t = np.array([f, f + k1 * d, f + k2 * d])
        t = t[rng.permutation(3)]
    dtype = 'i8' if (cls.startswith('int') and rng.random() < 0.5) else 'f8'
    form = pick(rng, ['rows', 'rows', 'lists'])
    return {'kind': 'triple', 'cls': cls, 'dtype': dtype, 'form': form, 'triple': np.ascontiguousarray(t, dtype=float)}


def _gen_rank(rng):
    n = int(rng.integers(1, 5)) if rng.random() < 0.2 else int(rng.integers(1, 41))
    cls = pick(rng, ['float', 'ties', 'ties', 'equal', 'sorted', 'reversed', 'distance', 'near-equal', 'tiny'])
    if cls == 'near-equal':
        # distinct values a few ulps .. 1e-13 relative apart (scores that differ "only by noise" are still ordered)
        base = float(10.0 ** rng.uniform(-3, 3))
        v = base * (1.0 + rng.permutation(n) * float(pick(rng, [2.3e-16, 1e-15, 1e-13, 1e-11])))
    elif cls == 'tiny':
        v = np.abs(rng.normal(0, 1, n)) * 10.0 ** -int(rng.integers(12, 300))
    elif cls == 'float':
        v = rng.normal(0, 1, n) * 10.0 ** int(rng.integers(-3, 6))
    elif cls == 'ties':
        v = rng.integers(0, max(2, n // 2), n).astype(float)
    elif cls == 'equal':
        v = np.full(n, float(rng.integers(0, 4)))
    elif cls == 'sorted':
        v = np.sort(rng.random(n))
    elif cls == 'reversed':
        v = np.sort(rng.integers(0, n + 1, n).astype(float))[::-1].copy()
    else:
        v = np.abs(rng.normal(0, 1, n))
    dtype = 'i8' if (gen.is_integral(v) and rng.random() < 0.5) else 'f8'
    return {'kind': 'rank', 'cls': cls, 'dtype': dtype, 'values': v}


def _gen_simplifier(rng, tier):
    nmax = 60 if tier == 'quick' or rng.random() < 0.8 else 400
    pts, meta = gen.curve(rng, family=pick(rng, CURVES), nmax=nmax, nmin=3)
    n = len(pts)
    return {'kind': 'simplifier', 'points': pts, 'family': meta['family'], 'layout': gen.pick_layout(rng, pts),
            't': gen.threshold(rng), 'length': int(rng.integers(2, n + 2)), 'order': pick(rng, ORDERS)}


def cases(rng, tier, shard, nshards):
    total = META['quick_cases'] if tier == 'quick' else META['thorough_cases']
    count = shard_count(total, shard, nshards)
    if shard == 0:
        # one point set longer than 65 536 points whose length is not a multiple of any power-of-two block
        n = int(rng.integers(66000, 90000)) | 1
        x = np.arange(n, dtype=float)
        pts = np.ascontiguousarray(np.column_stack((x, 500.0 + 100.0 * np.sin(x / 977.0) + (x > 0.9 * n) * 40.0)))
        yield {'kind': 'dist', 'points': pts, 'a': pts[0].copy(), 'b': pts[-1].copy(), 'seg': 'chord', 'src': 'very-long',
               'layout': 'C', 'ab_layout': 'C', 'left': 0, 'right': n - 1}
    for _ in range(count):
        kind = KINDS[int(rng.choice(len(KINDS), p=KIND_P))]
        if kind == 'dist':
            yield _gen_dist(rng, tier)
        elif kind == 'rect':
            yield _gen_rect(rng)
        elif kind == 'triple':
            yield _gen_triple(rng)
        elif kind == 'rank':
            yield _gen_rank(rng)
        else:
            yield _gen_simplifier(rng, tier)


# ------------------------------------------------------------------ driver

def _call(ctx, name, fn, *args):
    ok, res = install.guarded(ctx, f'complete:{name}', fn, *args)
    if ok:
        ctx.ok('complete')
    return ok, res


def run_case(ctx, mods, case):
    lf, kr, mg, pp, rdp = mods['linear_fit'], mods['knee_ranking'], mods['menger'], mods['postprocessing'], mods['rdp']
    kind = case['kind']
    STATE['via'] = ''
    ctx.h('case_kind', kind)
    if kind == 'dist':
        P = gen.present(case['points'], case['layout'])
        if case['ab_layout'] == 'i64':
            a, b = case['a'].astype(np.int64), case['b'].astype(np.int64)
        else:
            a, b = np.asarray(case['a'], dtype=float), np.asarray(case['b'], dtype=float)
        ctx.h('dist_case', f"{case['src']}/{case['seg']}")
        _call(ctx, 'linear_fit.shortest_distance_points', lf.shortest_distance_points, P, a, b)
        if not np.array_equal(a, b):
            _call(ctx, 'linear_fit.perpendicular_distance_points', lf.perpendicular_distance_points, P, a, b)
        _call(ctx, 'linear_fit.perpendicular_distance_index', lf.perpendicular_distance_index, P,
              case['left'], case['right'])
        _call(ctx, 'linear_fit.perpendicular_distance', lf.perpendicular_distance, P)
        _call(ctx, 'knee_ranking.distances', kr.distances, a, P)
    elif kind == 'rect':
        dt = np.int64 if case['dtype'] == 'i8' else float
        p1, p2, q1, q2 = [np.asarray(case[k]).astype(dt) for k in ('p1', 'p2', 'q1', 'q2')]
        ok, ra = _call(ctx, 'knee_ranking.rect', kr.rect, p1, p2)
        ok2, rb = _call(ctx, 'knee_ranking.rect', kr.rect, q1, q2)
        if ok and ok2:
            ctx.h('rect_case', f"{case['cls']}/{case['dtype']}")
            _call(ctx, 'knee_ranking.rect_overlap', kr.rect_overlap, ra[0], ra[1], rb[0], rb[1])
    elif kind == 'triple':
        dt = np.int64 if case['dtype'] == 'i8' else float
        t = np.asarray(case['triple']).astype(dt)
        ctx.h('triple_case', f"{case['cls']}/{case['dtype']}/{case['form']}")
        if case['form'] == 'lists':
            f, g, h = [r.tolist() for r in t]
        else:
            f, g, h = t[0], t[1], t[2]
        _call(ctx, 'menger.menger_curvature', mg.menger_curvature, f, g, h)
        _call(ctx, 'postprocessing.triangle_area', pp.triangle_area, t)
    elif kind == 'rank':
        v = np.asarray(case['values']).astype(np.int64 if case['dtype'] == 'i8' else float)
        ctx.h('rank_case', f"{case['cls']}/{case['dtype']}")
        _call(ctx, 'knee_ranking.rank', kr.rank, v)
        _call(ctx, 'knee_ranking.distance_to_similarity', kr.distance_to_similarity, v)
    elif kind == 'simplifier':
        P = gen.present(case['points'], case['layout'])
        STATE['via'] = '@simplifier'
        try:
            cst = mods['metrics'].Metrics('smape')
            for dn in DISTANCES:
                d = distance(mods, dn)
                _call(ctx, 'rdp.rdp', rdp.rdp, P, case['t'], d, cst)
                _call(ctx, 'rdp.rdp_fixed', rdp.rdp_fixed, P, case['length'], d, order(mods, case['order']))
                ctx.h('simplifier', f"{dn}/{case['order']}/{case['family']}")
            _call(ctx, 'menger.knee', mg.knee, P)
        finally:
            STATE['via'] = ''
    else:
        raise HarnessError(f'unknown case kind {kind!r}')
