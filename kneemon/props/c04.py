"""C04 - threshold RDP keeps a segment only if it fits and splits only where it must."""
import sys

import numpy as np

from .. import gen, install, loops, models
from .c05 import geo_dist
from ..common import COSTS, DISTANCES, EPS, cost, distance, pick, shard_count

sys.setrecursionlimit(20000)

META = {
    'refill': True,      # cases presented in a reused buffer are followed by a refill of that buffer (runner)
    'rule': ('cases = curve (12 families, 4 x-patterns, 4 layouts) x 5 metrics x 2 distances x threshold spread '
             'around the curve\'s own cost ladder so that outcomes range from "2 points kept" to "all kept"; the '
             'monitor re-derives the recursive partition of rdp.rdp\'s output with the library\'s own cost and distance '
             'primitives (exact accept/reject; equally-far split candidates within 64*eps*(|coords|max+chord) are '
             'interchangeable). distinct = digest(curve, metric, distance, t); non-trivial = at least one accepted '
             'segment with interior points and at least one split'),
    'require': {'partition': 2500, 'nontrivial': 300},
    'scale': {'quick': 1, 'thorough': 120},
    'quick_cases': 12000, 'thorough_cases': 480000,
    'assumptions': ['accept/reject comparisons reuse the saved originals of the cost primitives on the same slices (bit-identical)',
                    'a split point within the distance noise floor of the farthest interior point is accepted'],
}

NODE_CAP = 100000

_PRIM = {'r2': 'linear_r2_points', 'rmspe': 'rmspe_points', 'rmsle': 'rmsle_points',
         'smape': 'smape_points', 'rpd': 'rpd_points'}


def _cost_fn(costname):
    return install.orig('linear_fit', _PRIM[costname])


class _Explainer:
    def __init__(self, mods, pts, retained, t, distname, costname, ctx=None):
        self.ctx = ctx
        self.model_checks = 0
        self.geo_checks = 0
        self.distname = distname
        self.pts = pts
        self.ret = retained
        self.retset = set(int(r) for r in retained)
        self.t = t
        self.costname = costname
        self.cost = cost(mods, costname)
        self.lf = mods['linear_fit']
        self.fit = install.orig('linear_fit', 'linear_fit_points')
        # the metric is dispatched by the monitor itself, so a wrong dispatch table in rdp.py is observable
        self.ccc = _cost_fn(costname)
        self.dist = install.orig('linear_fit', 'shortest_distance_points' if distname == 'shortest'
                                 else 'perpendicular_distance_points')
        self.nodes = 0
        self.accepted_with_interior = 0
        self.splits = 0
        self.multi = 0

    def curved(self, a, b):
        pt = self.pts[a:b + 1]
        if len(pt) <= 2:
            r = 1.0 if self.costname == 'r2' else 0.0
        else:
            r = self.ccc(pt, self.fit(pt))
            if self.ctx is not None and self.model_checks < 6:
                # the primitive's value is cross-checked against its definition (long double) on well-conditioned
                # segments, so that a broken shared primitive is observable here too (a few segments per call)
                self.model_checks += 1
                mod = models.endpoint_line_cost(pt, self.costname)
                if mod is None:
                    self.ctx.ood('cost-model', 'ill-conditioned')
                else:
                    v, tol = mod
                    self.ctx.mx(f'cost_model_err_over_tol:{self.costname}', abs(float(r) - v) / (tol + 1e-300))
                    self.ctx.check(abs(float(r) - v) <= tol, 'cost-model', f'primitive:cost-model:{self.costname}',
                                   f'endpoint-line {self.costname} of segment [{a},{b}] evaluated as {float(r)!r}; the definition gives {v!r} (tol {tol:.3g})',
                                   segment=[a, b], n=len(pt), segment_head=np.asarray(pt)[:5])
        return (r < self.t if self.costname == 'r2' else r >= self.t), r

    def explain(self, a, b):
        """(True, None) or (False, (kind, what, a, b))."""
        self.nodes += 1
        if self.nodes > NODE_CAP:
            raise OverflowError
        if b - a < 2:
            return True, None
        inside = [r for r in range(a + 1, b) if r in self.retset]
        curved, r = self.curved(a, b)
        if not inside:
            if curved:
                return False, ('accept-side', f'retained segment [{a},{b}] has interior points but cost {r!r} is on the '
                                              f'rejecting side of t={self.t!r} ({self.costname})', a, b)
            self.accepted_with_interior += 1
            return True, None
        if not curved:
            return False, ('split-not-needed', f'indices {inside[:8]} retained inside [{a},{b}] although its cost {r!r} '
                                               f'is on the accepting side of t={self.t!r} ({self.costname})', a, b)
        pt = self.pts[a:b + 1]
        d = np.asarray(self.dist(pt, pt[0], pt[-1]), dtype=float)
        if self.ctx is not None and self.geo_checks < 4:
            self.geo_checks += 1
            if True:
                g = geo_dist(pt, self.distname)
                sc = float(np.max(np.abs(np.asarray(pt, dtype=float) - np.asarray(pt[0], dtype=float)))) + float(np.hypot(*(np.asarray(pt[-1], float) - np.asarray(pt[0], float))))
                tol_ = 64 * EPS * sc + 1e-9 * g
                if np.all(np.isfinite(g)) and np.all(np.isfinite(d)):
                    self.ctx.check(bool(np.all(np.abs(d - g) <= tol_)), 'distance-model', f'primitive:distance-model:{self.distname}',
                                   f'{self.distname} distances of segment [{a},{b}] to its chord differ from the geometry '
                                   f'(max deviation {float(np.max(np.abs(d - g))):.3g}, tol {float(np.max(tol_)):.3g})',
                                   segment=[a, b], got=d[:8], geometry=g[:8])
        dmax = np.max(d[1:-1])
        tol = models.farthest_tol(pt, self.distname)
        cands = [r_ for r_ in inside if d[r_ - a] >= dmax - tol]
        if not cands:
            far = int(np.argmax(d[1:-1])) + 1 + a
            return False, ('not-farthest', f'range [{a},{b}] was split but none of the retained interior indices '
                                           f'{inside[:8]} is a farthest point (farthest {far} at {dmax!r}; retained at '
                                           f'{[float(d[r_ - a]) for r_ in inside[:8]]})', a, b)
        if len(cands) > 1:
            self.multi += 1
        cands.sort(key=lambda r_: -d[r_ - a])     # the exact argmax first
        first_fail = None
        for r_ in cands:
            okl, fl = self.explain(a, r_)
            if okl:
                okr, fr = self.explain(r_, b)
                if okr:
                    self.splits += 1
                    return True, None
                first_fail = first_fail or fr
            else:
                first_fail = first_fail or fl
        return False, first_fail


LAST = [None]


def post_rdp(mods):
    def post(ctx, original, args, kwargs, result):
        names = ['points', 't', 'distance', 'cost']
        a = dict(zip(names, args))
        a.update(kwargs)
        pts = a['points']
        t = a.get('t', 0.01)
        dist = a.get('distance', mods['rdp'].Distance.shortest)
        cst = a.get('cost', mods['metrics'].Metrics.smape)
        reduced = np.asarray(result[0])
        n = len(pts)
        if reduced.ndim != 1 or len(reduced) < 2 or reduced[0] != 0 or reduced[-1] != n - 1 \
                or not np.all(np.diff(reduced) > 0):
            ctx.ood('partition', 'malformed-reduction(C01)')
            return
        ex = _Explainer(mods, pts, reduced, t, dist.value, cst.value, ctx)
        try:
            ok, fail = ex.explain(0, n - 1)
        except (OverflowError, RecursionError):
            ctx.ood('partition', 'explain-too-large')
            return
        ctx.h('explain_nodes', 'multi-candidate' if ex.multi else 'single-candidate')
        if ok:
            ctx.ok('partition')
            LAST[0] = (ex.accepted_with_interior, ex.splits)
        else:
            kind, what, s_a, s_b = fail
            ctx.violation('partition', f'partition:{kind}', what, t=t, distance=dist.value, cost=cst.value,
                          reduced=reduced[:60], segment=[s_a, s_b])
            LAST[0] = None
    return post


def setup(ctx, mods):
    install.monitor(ctx, 'rdp', 'rdp', post_rdp(mods))
    return {'loops': loops.standard(ctx, mods)}


def _ladder(mods, pts, costname):
    """Costs of the whole curve and of a few sub-ranges: thresholds near them hit every outcome class."""
    vals = []
    fit = install.orig('linear_fit', 'linear_fit_points')
    ccc = _cost_fn(costname)
    n = len(pts)
    for (a, b) in [(0, n - 1), (0, n // 2), (n // 2, n - 1), (n // 4, 3 * n // 4)]:
        if b - a >= 2:
            pt = pts[a:b + 1]
            try:
                v = float(ccc(pt, fit(pt)))
            except Exception:
                continue
            if np.isfinite(v):
                vals.append(v)
    return vals


def cases(rng, tier, shard, nshards):
    from .. import boot
    mods = boot.modules()
    total = META['quick_cases'] if tier == 'quick' else META['thorough_cases']
    # long ranges (thousands of points) whose farthest point is a feature a few samples wide
    for _ in range(2 if tier == 'quick' else 4):
        cs = pick(rng, COSTS)
        yield {'points': gen.long_spiky(rng), 'family': 'long-spiky', 'layout': 'C', 'cost': cs,
               'distance': pick(rng, DISTANCES), 't': {'r2': 0.9, 'rmsle': 0.02}.get(cs, 0.05) * pick(rng, [0.5, 1.0, 2.0]) if cs != 'r2' else 0.9,
               'follow': []}
    for i in range(shard_count(total, shard, nshards)):
        r = rng.random()
        if tier == 'thorough' and r < 0.01:
            pts, meta = gen.curve(rng, nmax=2500, nmin=400)
        elif tier == 'thorough' and r < 0.10:
            pts, meta = gen.curve(rng, nmax=400, nmin=80)
        elif r > 0.985:
            pts, meta = gen.curve(rng, nmax=600, nmin=150)     # deep partitions also in the quick tier
        else:
            pts, meta = gen.curve(rng, nmax=80)
        lay = None
        if rng.random() < 0.03:
            pts, meta, lay = gen.large_int_curve(rng), {'family': 'large-int64'}, 'i64'
        cs = pick(rng, COSTS)
        t = gen.threshold(rng, cs)
        if rng.random() < 0.5:          # thresholds near the curve's own cost ladder
            with install.quiet():
                lad = _ladder(mods, pts, cs)
            if lad:
                tt = pick(rng, lad) * pick(rng, [0.5, 0.999, 1.0, 1.001, 2.0])
                if (0.0 < tt <= 1.0) if cs == 'r2' else (tt > 0 and np.isfinite(tt)):
                    t = float(tt)
        # a short history on the SAME array object: other distance / metric / threshold afterwards (state kept
        # between calls - memoised split points, caches - must not leak from one configuration into the next)
        follow = []
        for _ in range(int(rng.integers(0, 3))):
            c2 = pick(rng, COSTS) if rng.random() < 0.5 else cs
            follow.append({'cost': c2, 'distance': pick(rng, DISTANCES),
                           't': t if (c2 == cs and rng.random() < 0.5) else gen.threshold(rng, c2)})
        yield {'points': pts, 'family': meta['family'], 'layout': lay or gen.pick_layout(rng, pts),
               'cost': cs, 'distance': pick(rng, DISTANCES), 't': t, 'follow': follow}


def run_case(ctx, mods, case):
    pts = gen.present(case['points'], case['layout'])
    for step in [case] + list(case.get('follow', [])):
        run_step(ctx, mods, case, pts, step)


def run_step(ctx, mods, case, pts, step):
    rdp = mods['rdp']
    cs, t = step['cost'], step['t']
    LAST[0] = None
    ok, res = install.guarded(ctx, 'complete:rdp.rdp', rdp.rdp, pts, t, distance(mods, step['distance']), cost(mods, cs))
    if not ok:
        return
    kept = len(res[0])
    n = len(pts)
    ctx.h('outcome', 'two-kept' if kept == 2 else ('all-kept' if kept == n else 'in-between'))
    ctx.h('metric_x_distance', f"{cs}/{step['distance']}")
    ctx.h('history_position', 'first' if step is case else 'follow-up on the same array')
    last = LAST[0]
    if last is not None and last[0] >= 1 and last[1] >= 1:
        ctx.nontriv(case['points'], cs, step['distance'], t)
        ctx.sample({'family': case['family'], 'n': n, 'cost': cs, 'distance': step['distance'], 't': t,
                    'points_head': case['points'][:6], 'reduced': res[0][:20],
                    'accepted_segments_with_interior': last[0], 'splits': last[1]})
