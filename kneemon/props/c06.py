"""C06 - global RDP stops at the first refinement whose global cost meets the threshold."""
import numpy as np

from .. import gen, install, loops
from ..common import COSTS, DISTANCES, ORDERS, cost, distance, order, pick, shard_count

META = {
    'refill': True,      # cases presented in a reused buffer are followed by a refill of that buffer (runner)
    'rule': ('cases = curve x 5 metrics x 2 distances x 3 orderings x threshold placed around the curve\'s own global-cost '
             'ladder {cost(S_k)} (so that k* spreads over 2..n) x min_points in 0..n+2 x shuffled threshold lists for '
             'min_point_rdp; the monitors on grdp / mp_grdp / min_point_rdp recompute the fixed-size chain S_k with the '
             'saved rdp_fixed and the global cost with a fresh cache and demand exact equality of index arrays (curves above 260 points: bounded walk S_2..S_m when the answer has m <= 12 points; one 66000..90000-point trace per shard 0-2). '
             'distinct = digest(curve, configuration); non-trivial = 2 < k* < n'),
    'require': {'grdp': 1200, 'mp_grdp': 1200, 'min_point_rdp': 1200, 'nontrivial': 300},
    'scale': {'quick': 1, 'thorough': 30},
    'quick_cases': 4000, 'thorough_cases': 60000,
    'assumptions': ['S_k and the global cost are recomputed with the saved originals of rdp_fixed / compute_global_cost '
                    '(the latter with a fresh cache): C05 and C15 decide those two on their own'],
}

CHAIN_CAP = 260
LONG_K = 12        # longer curves are judged when the answer has at most this many points


def accept_side(costname, v, t):
    curved = (v < t) if costname == 'r2' else (v >= t)
    return not curved


def first_acceptable(mods, pts, t, dname, cname, oname, cache, kmax=None):
    """(k*, S_k*): least k >= 2 whose S_k has a global cost on the accepting side; (n, S_n) if none."""
    fixed = install.orig('rdp', 'rdp_fixed')
    gcost = install.orig('evaluation', 'compute_global_cost')
    n = len(pts)
    key = (dname, oname)
    chain = cache.setdefault(key, {})
    costs = cache.setdefault(('cost', dname, oname, cname), {})
    for k in range(2, (n if kmax is None else min(n, kmax)) + 1):
        if k not in chain:
            chain[k] = np.asarray(fixed(pts, k, distance(mods, dname), order(mods, oname))[0])
        if k not in costs:
            costs[k] = gcost(pts, chain[k], cost(mods, cname))      # fresh cache on every evaluation
        if accept_side(cname, costs[k], t):
            return k, chain[k]
    if kmax is not None and kmax < n:
        return None, None          # bounded walk (long curves): no acceptable member up to kmax
    return n, chain[n]


def _cost_model_check(ctx, mods, pts, sk, cname):
    """The global cost that decided k* is cross-checked against its definition (C15's long-double model) on
    well-conditioned curves, so that a broken cost primitive is observable here and not only in C15."""
    from . import c15
    P = np.asarray(pts)
    if P.dtype.kind not in 'fiu' or len(P) > 400:
        return
    Pf = np.asarray(P, dtype=float)
    well, rel_floor, abs_floor = c15.conditioning(Pf)
    if not abs_floor:
        return
    v = install.orig('evaluation', 'compute_global_cost')(pts, sk, cost(mods, cname))
    if v != v:
        return
    if cname in ('smape', 'rpd', 'rmspe'):
        if not well:
            ctx.ood('cost-model', 'ill-conditioned')
            return
        atol = rel_floor
    elif cname == 'rmsle':
        atol = abs_floor + 64 * c15.EPS
    else:
        y = Pf[:, 1]
        tss = float(np.sum((y - y.mean()) ** 2))
        if not tss > 1e6 * (c15.EPS * float(np.max(np.abs(y)))) ** 2 * len(y):
            ctx.ood('cost-model', 'ill-conditioned')
            return
        atol = abs_floor ** 2 * len(y) / tss + 64 * c15.EPS + 8 * abs_floor * float(np.sqrt(len(y) / tss))
    model = c15.model_cost(Pf, sk, cname)
    tol = 1e-6 * abs(model) + atol + 1e-300
    ctx.mx(f'cost_model_err_over_tol:{cname}', abs(float(v) - model) / tol)
    ctx.check(abs(float(v) - model) <= tol, 'cost-model', f'primitive:global-cost-model:{cname}',
              f'global {cname} cost of S_{len(sk)} evaluated as {float(v)!r}; the definition gives {model!r} (tol {tol:.3g})',
              breakpoints=np.asarray(sk)[:40])


def S(mods, pts, k, dname, oname, cache):
    chain = cache.setdefault((dname, oname), {})
    if k not in chain:
        chain[k] = np.asarray(install.orig('rdp', 'rdp_fixed')(pts, k, distance(mods, dname), order(mods, oname))[0])
    return chain[k]


STATE = {'cache': {}, 'pts_id': None, 'kstar': None}


def _cache_for(pts):
    if STATE['pts_id'] is not pts:
        STATE['pts_id'] = pts
        STATE['cache'] = {}
    return STATE['cache']


def _args(names, defaults, args, kwargs):
    a = dict(defaults)
    a.update(dict(zip(names, args)))
    a.update(kwargs)
    return a


def setup(ctx, mods):
    rdpm, M = mods['rdp'], mods['metrics']

    def post_grdp(ctx, original, args, kwargs, result):
        a = _args(['points', 't', 'distance', 'cost', 'order'],
                  {'t': 0.01, 'distance': rdpm.Distance.shortest, 'cost': M.Metrics.smape, 'order': rdpm.Order.segment},
                  args, kwargs)
        pts = a['points']
        kmax = None
        if len(pts) > CHAIN_CAP:
            # long curves: the chain is walked only as far as the answer goes (an answer of m <= LONG_K points claims that S_m
            # is the first acceptable member - that needs S_2 .. S_m only)
            m = len(np.asarray(result[0]))
            if m > LONG_K:
                ctx.ood('grdp', 'curve-too-long-for-chain')
                return
            kmax = m
        ks, want = first_acceptable(mods, pts, a['t'], a['distance'].value, a['cost'].value, a['order'].value, _cache_for(pts), kmax)
        if ks is None:
            ctx.violation('grdp', 'first-acceptable:rdp.grdp',
                          f'grdp returned {kmax} points although no member of the fixed-size chain up to S_{kmax} is acceptable',
                          t=a['t'], distance=a['distance'].value, cost=a['cost'].value, order=a['order'].value)
            return
        ctx.h('chain_walk', 'long-curve-bounded' if kmax is not None else 'full')
        STATE['kstar'] = ks
        _cost_model_check(ctx, mods, pts, want, a['cost'].value)
        got = np.asarray(result[0])
        ctx.check(np.array_equal(got, want), 'grdp', 'first-acceptable:rdp.grdp',
                  f'grdp returned {len(got)} points, the first acceptable member of the fixed-size chain is S_{ks}',
                  t=a['t'], distance=a['distance'].value, cost=a['cost'].value, order=a['order'].value,
                  got=got[:60], want=want[:60])

    def post_mp(ctx, original, args, kwargs, result):
        a = _args(['points', 't', 'min_points', 'distance', 'cost', 'order'],
                  {'t': 0.01, 'min_points': 10, 'distance': rdpm.Distance.shortest, 'cost': M.Metrics.smape,
                   'order': rdpm.Order.segment}, args, kwargs)
        pts = a['points']
        n = len(pts)
        if n > CHAIN_CAP:
            ctx.ood('mp_grdp', 'curve-too-long-for-chain')
            return
        cache = _cache_for(pts)
        ks, _ = first_acceptable(mods, pts, a['t'], a['distance'].value, a['cost'].value, a['order'].value, cache)
        k = max(ks, min(max(a['min_points'], 2), n))
        want = S(mods, pts, k, a['distance'].value, a['order'].value, cache)
        got = np.asarray(result[0])
        ctx.check(np.array_equal(got, want), 'mp_grdp', 'min-points:rdp.mp_grdp',
                  f'mp_grdp(min_points={a["min_points"]}) returned {len(got)} points, expected S_{k} (k*={ks}, n={n})',
                  t=a['t'], min_points=a['min_points'], distance=a['distance'].value, cost=a['cost'].value,
                  order=a['order'].value, got=got[:60], want=want[:60])

    def post_minpoint(ctx, original, args, kwargs, result):
        a = _args(['points', 't', 'min_points'], {'t': [0.01, 0.001, 0.0001], 'min_points': 10}, args, kwargs)
        pts = a['points']
        n = len(pts)
        if n > CHAIN_CAP:
            ctx.ood('min_point_rdp', 'curve-too-long-for-chain')
            return
        cache = _cache_for(pts)
        m = a['min_points']
        want = None
        for t in sorted(a['t'], reverse=True):
            _, s = first_acceptable(mods, pts, t, 'shortest', 'smape', 'segment', cache)
            if len(s) >= m:
                want = s
                break
        if want is None:
            want = S(mods, pts, m, 'shortest', 'segment', cache)
        got = np.asarray(result[0])
        ctx.check(np.array_equal(got, want), 'min_point_rdp', 'multi-threshold:rdp.min_point_rdp',
                  f'min_point_rdp(t={sorted(a["t"], reverse=True)}, min_points={m}) returned {len(got)} points, expected {len(want)}',
                  tlist=list(a['t']), min_points=m, got=got[:60], want=want[:60])

    install.monitor(ctx, 'rdp', 'grdp', post_grdp)
    install.monitor(ctx, 'rdp', 'mp_grdp', post_mp)
    install.monitor(ctx, 'rdp', 'min_point_rdp', post_minpoint)
    return {'loops': loops.standard(ctx, mods)}


def cases(rng, tier, shard, nshards):
    from .. import boot
    mods = boot.modules()
    total = META['quick_cases'] if tier == 'quick' else META['thorough_cases']
    # one long curve per shard in every tier (generous thresholds: the accepted member is among the first dozens)
    lp = gen.long_spiky(rng, 2500, 4500)
    yield {'points': lp, 'family': 'long-spiky', 'layout': 'C', 'cost': pick(rng, ['rpd', 'smape', 'rmspe']), 'distance': pick(rng, DISTANCES),
           'order': pick(rng, ORDERS), 't': float(pick(rng, [0.02, 0.01, 0.005])), 'min_points': int(rng.integers(5, 30)),
           'tlist': [0.02, 0.008], 'mp2': int(rng.integers(5, 25))}
    if shard < 3 or tier == 'thorough':
        # one trace of more than 65 536 points (indices no longer fit 16 bits): a cliff after the first sample, then an almost
        # straight descent - the farthest point of the whole chord is sample 1, the 3-point member [0, 1, n-1] fits well and
        # the threshold sits between its cost and the cost of the chord, so the run has to stop exactly there
        n = int(rng.integers(66000, 90000))
        x = np.arange(n, dtype=float)
        u = x / float(n - 1)
        y = 1000.0 - 400.0 * u - float(rng.uniform(5.0, 60.0)) * 4.0 * u * (1.0 - u)
        y[0] += float(rng.uniform(3000.0, 20000.0))
        lp = np.ascontiguousarray(np.column_stack((x, np.round(y, 3))))
        cn, dn, on = pick(rng, ['rpd', 'smape', 'rmspe', 'rmsle']), pick(rng, DISTANCES), pick(rng, ORDERS)
        with install.quiet():
            vs = []
            for k in (2, 3):
                sk = mods['rdp'].rdp_fixed(lp, k, distance(mods, dn), order(mods, on))[0]
                vs.append(float(mods['evaluation'].compute_global_cost(lp, sk, cost(mods, cn))))
        if np.all(np.isfinite(vs)) and 0 < vs[1] < 0.5 * vs[0] and list(sk) == [0, 1, n - 1]:
            t_ = float(np.sqrt(vs[0] * vs[1]))
            yield {'points': lp, 'family': 'very-long-early-cliff', 'layout': 'C', 'cost': cn, 'distance': dn, 'order': on,
                   't': t_, 'min_points': int(rng.integers(2, 4)), 'tlist': [t_, vs[1] * 0.5], 'mp2': int(rng.integers(2, 4))}
    for i in range(shard_count(total, shard, nshards)):
        r = rng.random()
        if tier == 'thorough' and r < 0.03:
            pts, meta = gen.curve(rng, nmax=250, nmin=80)
        else:
            pts, meta = gen.curve(rng, nmax=70)
        if rng.random() < 0.04:
            # probabilities / latencies in base units: y of magnitude 1e-9 (sums of squares far below machine epsilon)
            pts = pts.copy()
            pts[:, 1] = pts[:, 1] / max(float(np.max(np.abs(pts[:, 1]))), 1e-300) * float(10.0 ** -int(rng.integers(8, 11)))
            meta = dict(meta, family=str(meta['family']) + '+tiny-y')
        lay = None
        if rng.random() < 0.04:
            # integral coordinates of magnitude 1e9..1e10 as int64 (products of two coordinate differences do not fit int64)
            pts, meta, lay = gen.large_int_curve(rng, nmax=40), {'family': 'large-int64'}, 'i64'
        n = len(pts)
        cn, dn, on = pick(rng, COSTS), pick(rng, DISTANCES), pick(rng, ORDERS)
        t = gen.threshold(rng, cn)
        t2 = float(10.0 ** rng.uniform(-4, 0))
        if rng.random() < 0.7:       # place t around the curve's own cost ladder so that k* spreads over 2..n
            with install.quiet():
                try:
                    k = int(rng.integers(2, n + 1))
                    sk = mods['rdp'].rdp_fixed(pts, k, distance(mods, dn), order(mods, on))[0]
                    v = float(mods['evaluation'].compute_global_cost(pts, sk, cost(mods, cn)))
                    sk2 = mods['rdp'].rdp_fixed(pts, k)[0]
                    v2 = float(mods['evaluation'].compute_global_cost(pts, sk2, cost(mods, 'smape')))
                except Exception:
                    v = v2 = float('nan')
            f = pick(rng, [0.7, 0.999, 1.0, 1.001, 1.4])
            tt = v * f
            if np.isfinite(tt) and ((0 < tt <= 1) if cn == 'r2' else tt > 0):
                t = float(tt)
            if np.isfinite(v2) and v2 > 0:
                t2 = float(v2 * f)
        if rng.random() < 0.03:
            t = 0.0            # boundary: a cost of exactly 0 is not < 0, so no member is acceptable (all points); R2 >= 0 always is
        tl = [t2] + [float(10.0 ** rng.uniform(-4, 0)) for _ in range(int(rng.integers(0, 3)))]
        if rng.random() < 0.5 and n >= 4:
            # more members of the curve's own cost ladder (closely spaced thresholds: each one selects another member)
            with install.quiet():
                for _k in range(int(rng.integers(1, 4))):
                    try:
                        sk3 = mods['rdp'].rdp_fixed(pts, int(rng.integers(2, n + 1)))[0]
                        v3 = float(mods['evaluation'].compute_global_cost(pts, sk3, cost(mods, 'smape')))
                    except Exception:
                        continue
                    if np.isfinite(v3) and v3 > 0:
                        tl.append(float(v3 * pick(rng, [0.98, 1.0, 1.02, 1.1])))
        if rng.random() < 0.03:
            tl.append(0.0)
        rng.shuffle(tl)
        yield {'points': pts, 'family': meta['family'], 'layout': lay or gen.pick_layout(rng, pts),
               'cost': cn, 'distance': dn, 'order': on, 't': t, 'min_points': int(rng.integers(0, n + 3)),
               'tlist': [float(x) for x in tl], 'mp2': int(rng.integers(0, n + 3))}


def run_case(ctx, mods, case):
    rdp = mods['rdp']
    pts = gen.present(case['points'], case['layout'])
    n = len(pts)
    cn, dn, on, t = case['cost'], case['distance'], case['order'], case['t']
    d, c, o = distance(mods, dn), cost(mods, cn), order(mods, on)
    STATE['kstar'] = None
    STATE['pts_id'], STATE['cache'] = None, {}      # the chain memo is per case (a buffer may be reused across cases)
    ok, res = install.guarded(ctx, 'complete:rdp.grdp', rdp.grdp, pts, t, d, c, o)
    ks = STATE['kstar']
    if ok and ks is not None:
        ctx.h('kstar_class', '2' if ks == 2 else ('n' if ks == n else 'inside'))
        ctx.h('metric', cn)
        if 2 < ks < n:
            ctx.nontriv(case['points'], cn, dn, on, t)
            ctx.sample({'family': case['family'], 'n': n, 'cost': cn, 'distance': dn, 'order': on, 't': t,
                        'k_star': ks, 'points_head': case['points'][:6], 'grdp': res[0][:20]})
    install.guarded(ctx, 'complete:rdp.mp_grdp', rdp.mp_grdp, pts, t, case['min_points'], d, c, o)
    tl = list(case['tlist'])
    install.guarded(ctx, 'complete:rdp.min_point_rdp', rdp.min_point_rdp, pts, tl, case['mp2'])
