"""Process start-up: pin the source root, import the package under test.

Importing the package from <root>/src *is* rebuilding from the current working
tree (pure Python, no build step).  KNEEMON_SRC overrides the root for
self-validation runs on scratch copies only.
"""
import os
import sys
import warnings

sys.dont_write_bytecode = True

VERIF = os.path.dirname(os.path.dirname(os.path.abspath(__file__)))
SRC = os.path.abspath(os.environ.get('KNEEMON_SRC', '/repo/src'))
REPO = os.path.dirname(SRC)

_booted = False


def boot():
    """Import kneeliverse from SRC and return the package."""
    global _booted
    if SRC not in sys.path[:1]:
        sys.path.insert(0, SRC)
    os.environ.setdefault('MPLBACKEND', 'Agg')
    os.environ.setdefault('NUMBA_DISABLE_PERFORMANCE_WARNINGS', '1')
    warnings.simplefilter('ignore')
    import numpy as np
    np.seterr(all='ignore')
    import kneeliverse
    where = os.path.abspath(kneeliverse.__file__)
    if not where.startswith(SRC + os.sep):
        raise RuntimeError(f'kneeliverse imported from {where}, expected under {SRC}')
    _booted = True
    return kneeliverse


def modules():
    """All 15 modules of the package, imported, by short name."""
    import importlib
    boot()
    names = ['clustering', 'convex_hull', 'curvature', 'dfdt', 'evaluation',
             'knee_ranking', 'kneedle', 'linear_fit', 'lmethod', 'menger',
             'metrics', 'multi_knee', 'postprocessing', 'rdp', 'zmethod']
    return {n: importlib.import_module('kneeliverse.' + n) for n in names}
