"""kneemon - runtime monitors for kneeliverse (mariolpantunes/knee).

Nothing here is imported by the repository; the guard KNEEMON=1 is set by
./check and only switches the *harness's* monitors on.  See /verif/DESIGN.md.
"""
